pub fn _x() {}
