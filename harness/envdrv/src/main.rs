//! envdrv: JSONL driver around the graphql_client runtime crate (Response / Error / serde_with).
//! stdin lines:
//!   {"id", "kind": "body", "text": "<response body>"}            -> acceptance, re-serialisation, round trip, Display per error
//!   {"id", "kind": "value", "value": <Response as JSON>}          -> deserialize(serialize(r)) == r through value and string
//!   {"id", "kind": "id", "text": "<one JSON value>"}              -> ID helper outcomes along several serde routes
use graphql_client::{Error, Response};
use serde::Deserialize;
use serde_json::{json, Map, Value};
use std::io::{BufRead, Write};

type R = Response<Map<String, Value>>;

#[derive(Deserialize)]
struct ReqId {
    #[serde(deserialize_with = "graphql_client::serde_with::deserialize_id")]
    id: String,
}
#[derive(Deserialize)]
struct OptId {
    #[serde(deserialize_with = "graphql_client::serde_with::deserialize_option_id")]
    id: Option<String>,
}
#[derive(Deserialize)]
struct FlatReq {
    #[serde(flatten)]
    inner: ReqId,
}
#[derive(Deserialize)]
struct FlatOpt {
    #[serde(flatten)]
    inner: OptId,
}
#[derive(Deserialize)]
#[serde(tag = "__typename")]
enum Tagged {
    R(ReqId),
    O(OptId),
}

fn res<T, E: std::fmt::Display>(r: Result<T, E>, f: impl Fn(T) -> Value) -> Value {
    match r {
        Ok(v) => json!({"ok": true, "v": f(v)}),
        Err(e) => json!({"ok": false, "err": e.to_string()}),
    }
}

/// a sink that accepts `left` more bytes and then fails (a full buffer, a closed pipe behind an adapter)
struct Bounded {
    left: usize,
}
impl std::fmt::Write for Bounded {
    fn write_str(&mut self, s: &str) -> std::fmt::Result {
        if s.len() > self.left {
            self.left = 0;
            return Err(std::fmt::Error);
        }
        self.left -= s.len();
        Ok(())
    }
}

fn display_of(e: &Error) -> Value {
    match std::panic::catch_unwind(std::panic::AssertUnwindSafe(|| {
        use std::fmt::Write as _;
        let first = format!("{}", e);
        // fault injection: the same value formatted into sinks that fail at the first byte, half way and at the last byte;
        // afterwards it must print exactly as before
        let mut failed = 0;
        for k in [0, first.len() / 2, first.len().saturating_sub(1)] {
            let mut w = Bounded { left: k };
            if write!(w, "{}", e).is_err() {
                failed += 1;
            }
        }
        let again = format!("{}", e);
        // the same value under format specs a caller may write (aligned log columns, sign / zero flags, alternate form)
        let specs = json!({
            "<60": format!("{:<60}", e), ">60": format!("{:>60}", e), "^7": format!("{:^7}", e), "*<50": format!("{:*<50}", e),
            "+": format!("{:+}", e), "06": format!("{:06}", e), "#": format!("{:#}", e), "to_string": e.to_string(),
        });
        (first, again, failed, specs)
    })) {
        Ok((s, again, failed, specs)) => json!({"ok": true, "s": s, "again": again, "failed_writes": failed, "specs": specs}),
        Err(_) => json!({"ok": false}),
    }
}

fn handle(req: &Value) -> Value {
    let kind = req["kind"].as_str().unwrap_or("");
    match kind {
        "body" => {
            let text = req["text"].as_str().unwrap();
            match serde_json::from_str::<R>(text) {
                Err(e) => json!({"ok": false, "err": e.to_string()}),
                Ok(r) => {
                    let reser = serde_json::to_value(&r).unwrap();
                    let back: Result<R, _> = serde_json::from_value(reser.clone());
                    let rt_value = back.map(|b| b == r).unwrap_or(false);
                    let s = serde_json::to_string(&r).unwrap();
                    let rt_str = serde_json::from_str::<R>(&s).map(|b| b == r).unwrap_or(false);
                    // same body through from_value (different serde code path: no borrowed strs)
                    let via_value = serde_json::from_str::<Value>(text).ok().and_then(|v| serde_json::from_value::<R>(v).ok()).map(|b| b == r).unwrap_or(false);
                    // the entry points a client really uses: from_slice (reqwest's .json()), from_reader (blocking bodies, files:
                    // every string reaches the visitors as a transient &str), and the serialised bytes read back through a reader
                    let via_slice = serde_json::from_slice::<R>(text.as_bytes()).map(|b| b == r).unwrap_or(false);
                    let via_reader = serde_json::from_reader::<_, R>(text.as_bytes()).map(|b| b == r).unwrap_or(false);
                    let rt_reader = serde_json::from_reader::<_, R>(serde_json::to_vec(&r).unwrap().as_slice()).map(|b| b == r).unwrap_or(false);
                    let displays: Vec<Value> = r.errors.as_ref().map(|es| es.iter().map(display_of).collect()).unwrap_or_default();
                    json!({"ok": true, "reser": reser, "rt_value": rt_value, "rt_str": rt_str, "via_value": via_value, "via_slice": via_slice, "via_reader": via_reader, "rt_reader": rt_reader, "displays": displays})
                }
            }
        }
        "value" => {
            // a Response value given structurally; built through deserialisation, then the law is checked on it
            match serde_json::from_value::<R>(req["value"].clone()) {
                Err(e) => json!({"ok": false, "err": e.to_string()}),
                Ok(r) => {
                    let v = serde_json::to_value(&r).unwrap();
                    let a = serde_json::from_value::<R>(v.clone()).map(|b| b == r).unwrap_or(false);
                    let s = serde_json::to_string_pretty(&r).unwrap();
                    let b = serde_json::from_str::<R>(&s).map(|b| b == r).unwrap_or(false);
                    json!({"ok": true, "rt_value": a, "rt_str": b, "ser": v})
                }
            }
        }
        "id" => {
            let text = req["text"].as_str().unwrap();
            let sv = |s: String| Value::String(s);
            let ov = |s: Option<String>| s.map(Value::String).unwrap_or(Value::Null);
            let mut out = Map::new();
            // direct calls of the helpers
            out.insert("req_direct_str".into(), res(graphql_client::serde_with::deserialize_id(&mut serde_json::Deserializer::from_str(text)), sv));
            out.insert("opt_direct_str".into(), res(graphql_client::serde_with::deserialize_option_id(&mut serde_json::Deserializer::from_str(text)), ov));
            if let Ok(v) = serde_json::from_str::<Value>(text) {
                out.insert("req_direct_value".into(), res(graphql_client::serde_with::deserialize_id(v.clone()), sv));
                out.insert("opt_direct_value".into(), res(graphql_client::serde_with::deserialize_option_id(v.clone()), ov));
                let obj = json!({ "id": v });
                let objs = format!("{{\"id\": {}}}", text);
                out.insert("req_field_str".into(), res(serde_json::from_str::<ReqId>(&objs), |x| sv(x.id)));
                out.insert("opt_field_str".into(), res(serde_json::from_str::<OptId>(&objs), |x| ov(x.id)));
                out.insert("req_field_value".into(), res(serde_json::from_value::<ReqId>(obj.clone()), |x| sv(x.id)));
                out.insert("opt_field_value".into(), res(serde_json::from_value::<OptId>(obj.clone()), |x| ov(x.id)));
                out.insert("req_flatten".into(), res(serde_json::from_str::<FlatReq>(&objs), |x| sv(x.inner.id)));
                out.insert("opt_flatten".into(), res(serde_json::from_str::<FlatOpt>(&objs), |x| ov(x.inner.id)));
                let t_r = format!("{{\"__typename\": \"R\", \"id\": {}}}", text);
                let t_o = format!("{{\"id\": {}, \"__typename\": \"O\"}}", text);
                out.insert("req_tagged".into(), res(serde_json::from_str::<Tagged>(&t_r), |x| match x { Tagged::R(r) => sv(r.id), Tagged::O(o) => ov(o.id) }));
                out.insert("opt_tagged".into(), res(serde_json::from_str::<Tagged>(&t_o), |x| match x { Tagged::R(r) => sv(r.id), Tagged::O(o) => ov(o.id) }));
            }
            Value::Object(out)
        }
        _ => json!({"error": "unknown kind"}),
    }
}

fn main() {
    let quiet = std::env::args().any(|a| a == "--quiet-panics");
    if quiet {
        std::panic::set_hook(Box::new(|_| {}));
    }
    let stdin = std::io::stdin();
    let stdout = std::io::stdout();
    let mut o = std::io::BufWriter::new(stdout.lock());
    for line in stdin.lock().lines() {
        let line = line.unwrap();
        if line.trim().is_empty() {
            continue;
        }
        let req: Value = serde_json::from_str(&line).expect("bad request");
        let mut r = handle(&req);
        r["id"] = req["id"].clone();
        serde_json::to_writer(&mut o, &r).unwrap();
        o.write_all(b"\n").unwrap();
    }
    o.flush().unwrap();
}
