//! attrdrv: runs the derive crate's attribute extraction functions (the real source file,
//! included by path) on struct texts. stdin: {"id", "text"} per line.
#[allow(dead_code)]
#[path = "/repo/graphql_query_derive/src/attributes.rs"]
mod attributes;

use serde_json::{json, Value};
use std::io::{BufRead, Write};

const KEYS: &[&str] = &[
    "query_path",
    "schema_path",
    "response_derives",
    "variables_derives",
    "custom_scalars_module",
    "deprecated",
    "normalization",
    "fragments_other_variant",
];

fn r<T: Into<Value>>(x: Result<T, syn::Error>) -> Value {
    match x {
        Ok(v) => json!({ "ok": v.into() }),
        Err(e) => json!({ "err": e.to_string() }),
    }
}

fn handle(text: &str) -> Value {
    let ast: syn::DeriveInput = match syn::parse_str(text) {
        Ok(a) => a,
        Err(e) => return json!({"parse_error": e.to_string()}),
    };
    let mut out = serde_json::Map::new();
    for k in KEYS {
        out.insert(format!("attr:{k}"), r(attributes::extract_attr(&ast, k)));
    }
    out.insert("list:extern_enums".into(), r(attributes::extract_attr_list(&ast, "extern_enums")));
    out.insert("deprecation".into(), r(attributes::extract_deprecation_strategy(&ast).map(|d| format!("{:?}", d))));
    out.insert("normalization".into(), r(attributes::extract_normalization(&ast).map(|d| format!("{:?}", d))));
    out.insert("other_variant".into(), json!(attributes::extract_fragments_other_variant(&ast)));
    out.insert("skip_none".into(), json!(attributes::extract_skip_serializing_none(&ast)));
    out.insert("ident".into(), json!(ast.ident.to_string()));
    {
        use std::fmt::Write as _;
        let mut v = String::new();
        let _ = write!(v, "{:?}", ast.vis);
        out.insert("vis_debug".into(), json!(v.split('(').next().unwrap_or("")));
    }
    Value::Object(out)
}

fn main() {
    std::panic::set_hook(Box::new(|_| {}));
    let stdin = std::io::stdin();
    let stdout = std::io::stdout();
    let mut o = std::io::BufWriter::new(stdout.lock());
    for line in stdin.lock().lines() {
        let line = line.unwrap();
        if line.trim().is_empty() {
            continue;
        }
        let req: Value = serde_json::from_str(&line).expect("bad request");
        let text = req["text"].as_str().unwrap_or("").to_owned();
        let mut resp = match std::panic::catch_unwind(move || handle(&text)) {
            Ok(v) => v,
            Err(_) => json!({"panic": true}),
        };
        resp["id"] = req["id"].clone();
        serde_json::to_writer(&mut o, &resp).unwrap();
        o.write_all(b"\n").unwrap();
    }
    o.flush().unwrap();
}
