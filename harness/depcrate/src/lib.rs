pub fn _x() {}
