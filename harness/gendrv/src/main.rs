//! gendrv: JSONL driver around graphql_client_codegen's public entry points.
//!
//! Modes (argv[1]):
//!   serve     one JSON request per stdin line -> one JSON response per stdout line (panics caught)
//!   one       one request on stdin; NOT caught: exit 0 = Ok, 2 = Err, 101 = panic (message on stderr)
//!   stampede  one JSON object {threads: [[request,...],...], sleeps_us: [[n,...],...]} -> per-call outcomes + cache events
//!
//! request: {id, schema_path, query_path? | query_text?, options: {...}, want: ["tokens","pretty","inspect"]}
use graphql_client_codegen::{
    deprecation::DeprecationStrategy, generate_module_token_stream,
    generate_module_token_stream_from_string, normalization::Normalization, CodegenMode,
    GraphQLClientCodegenOptions,
};
use proc_macro2::{Delimiter, Spacing, TokenStream, TokenTree};
use serde_json::{json, Value};
use std::cell::RefCell;
use std::io::{BufRead, Read, Write};

thread_local! {
    static LAST_PANIC: RefCell<Option<String>> = RefCell::new(None);
}

fn build_options(o: &Value) -> Result<GraphQLClientCodegenOptions, String> {
    let mode = match o.get("mode").and_then(Value::as_str).unwrap_or("cli") {
        "derive" => CodegenMode::Derive,
        _ => CodegenMode::Cli,
    };
    let mut opts = GraphQLClientCodegenOptions::new(mode);
    if let Some(s) = o.get("operation_name").and_then(Value::as_str) {
        opts.set_operation_name(s.to_owned());
    }
    if let Some(s) = o.get("struct_name").and_then(Value::as_str) {
        // what the derive does for `struct <s>;`
        let ident: proc_macro2::Ident = syn::parse_str(s).map_err(|e| format!("struct_name: {e}"))?;
        opts.set_struct_ident(ident);
        opts.set_operation_name(s.to_owned());
    }
    if let Some(s) = o.get("struct_name_only").and_then(Value::as_str) {
        // the library's `struct_name` option by itself (a library caller naming the implementation target; no selection implied)
        opts.set_struct_name(s.to_owned());
    }
    match o.get("normalization").and_then(Value::as_str) {
        Some("rust") => opts.set_normalization(Normalization::Rust),
        Some("none") => opts.set_normalization(Normalization::None),
        _ => {}
    }
    if let Some(s) = o.get("response_derives").and_then(Value::as_str) {
        opts.set_response_derives(s.to_owned());
    }
    if let Some(s) = o.get("variables_derives").and_then(Value::as_str) {
        opts.set_variables_derives(s.to_owned());
    }
    match o.get("deprecation").and_then(Value::as_str) {
        Some("allow") => opts.set_deprecation_strategy(DeprecationStrategy::Allow),
        Some("warn") => opts.set_deprecation_strategy(DeprecationStrategy::Warn),
        Some("deny") => opts.set_deprecation_strategy(DeprecationStrategy::Deny),
        _ => {}
    }
    if o.get("other_variant").and_then(Value::as_bool).unwrap_or(false) {
        opts.set_fragments_other_variant(true);
    }
    if o.get("skip_none").and_then(Value::as_bool).unwrap_or(false) {
        opts.set_skip_serializing_none(true);
    }
    if let Some(s) = o.get("custom_scalars_module").and_then(Value::as_str) {
        opts.set_custom_scalars_module(syn::parse_str(s).map_err(|e| format!("custom_scalars_module: {e}"))?);
    }
    if let Some(a) = o.get("extern_enums").and_then(Value::as_array) {
        opts.set_extern_enums(a.iter().filter_map(|v| v.as_str().map(str::to_owned)).collect());
    }
    match o.get("visibility").and_then(Value::as_str) {
        None => {}
        Some("inherited") | Some("") => opts.set_module_visibility(syn::Visibility::Inherited),
        Some(s) => opts.set_module_visibility(syn::parse_str(s).map_err(|e| format!("visibility: {e}"))?),
    }
    if let Some(s) = o.get("serde_path").and_then(Value::as_str) {
        opts.set_serde_path(syn::parse_str(s).map_err(|e| format!("serde_path: {e}"))?);
    }
    if let Some(s) = o.get("query_file").and_then(Value::as_str) {
        opts.set_query_file(s.into());
    }
    Ok(opts)
}

fn generate(req: &Value) -> Result<TokenStream, String> {
    let empty = json!({});
    let opts = build_options(req.get("options").unwrap_or(&empty))?;
    let schema_path = req["schema_path"].as_str().ok_or("schema_path missing")?;
    let schema_path = std::path::Path::new(schema_path);
    if let Some(qp) = req.get("query_path").and_then(Value::as_str) {
        generate_module_token_stream(qp.into(), schema_path, opts).map_err(|e| e.to_string())
    } else {
        let text = req["query_text"].as_str().ok_or("query_text missing")?;
        generate_module_token_stream_from_string(text, schema_path, opts).map_err(|e| e.to_string())
    }
}

// ---------------------------------------------------------------------------------------------
// token-tree pretty printer: one statement / brace per line, never touches literal contents
fn pretty(ts: TokenStream, out: &mut String, depth: usize) {
    let mut at_line_start = true;
    for tt in ts {
        if at_line_start {
            for _ in 0..depth {
                out.push(' ');
            }
            at_line_start = false;
        }
        match tt {
            TokenTree::Group(g) => {
                let (open, close) = match g.delimiter() {
                    Delimiter::Parenthesis => ("(", ")"),
                    Delimiter::Brace => ("{", "}"),
                    Delimiter::Bracket => ("[", "]"),
                    Delimiter::None => ("", ""),
                };
                out.push_str(open);
                if g.delimiter() == Delimiter::Brace {
                    out.push('\n');
                    pretty(g.stream(), out, depth + 1);
                    if !out.ends_with('\n') {
                        out.push('\n');
                    }
                    for _ in 0..depth {
                        out.push(' ');
                    }
                    out.push_str(close);
                    out.push('\n');
                    at_line_start = true;
                } else {
                    let mut inner = String::new();
                    pretty_inline(g.stream(), &mut inner);
                    out.push_str(inner.trim_end());
                    out.push_str(close);
                    out.push(' ');
                }
            }
            TokenTree::Punct(p) => {
                out.push(p.as_char());
                if p.spacing() == Spacing::Alone {
                    if p.as_char() == ';' {
                        out.push('\n');
                        at_line_start = true;
                    } else {
                        out.push(' ');
                    }
                }
            }
            TokenTree::Ident(i) => {
                out.push_str(&i.to_string());
                out.push(' ');
            }
            TokenTree::Literal(l) => {
                out.push_str(&l.to_string());
                out.push(' ');
            }
        }
    }
}

fn pretty_inline(ts: TokenStream, out: &mut String) {
    for tt in ts {
        match tt {
            TokenTree::Group(g) => {
                if g.delimiter() == Delimiter::Brace {
                    // a braced group inside (...) or [...]: keep it on this line
                    out.push('{');
                    pretty_inline(g.stream(), out);
                    out.push_str("} ");
                } else {
                    let (open, close) = match g.delimiter() {
                        Delimiter::Parenthesis => ("(", ")"),
                        Delimiter::Bracket => ("[", "]"),
                        _ => ("", ""),
                    };
                    out.push_str(open);
                    let mut inner = String::new();
                    pretty_inline(g.stream(), &mut inner);
                    out.push_str(inner.trim_end());
                    out.push_str(close);
                    out.push(' ');
                }
            }
            TokenTree::Punct(p) => {
                out.push(p.as_char());
                if p.spacing() == Spacing::Alone {
                    out.push(' ');
                }
            }
            TokenTree::Ident(i) => {
                out.push_str(&i.to_string());
                out.push(' ');
            }
            TokenTree::Literal(l) => {
                out.push_str(&l.to_string());
                out.push(' ');
            }
        }
    }
}

// ---------------------------------------------------------------------------------------------
// syn summary of the emitted items
fn ty_str(t: &syn::Type) -> String {
    use quote::ToTokens;
    // `::std::option::Option<T>`, `core::option::Option<T>`, `std::vec::Vec<T>`, `alloc::boxed::Box<T>` ... are the same types as
    // `Option<T>`, `Vec<T>`, `Box<T>`: the summary names the type, not the spelling of its path
    let mut s = t.to_token_stream().to_string().replace(' ', "");
    for (module, name) in [("option", "Option"), ("vec", "Vec"), ("boxed", "Box"), ("string", "String")] {
        for krate in ["std", "core", "alloc"] {
            for lead in ["::", ""] {
                let from = format!("{lead}{krate}::{module}::{name}");
                let mut out = String::new();
                let mut rest = s.as_str();
                while let Some(i) = rest.find(&from) {
                    // only whole paths: not preceded by an identifier character or another path segment
                    let ok = i == 0 || !matches!(rest.as_bytes()[i - 1], b'a'..=b'z' | b'A'..=b'Z' | b'0'..=b'9' | b'_' | b':');
                    out.push_str(&rest[..i]);
                    out.push_str(if ok { name } else { &from });
                    rest = &rest[i + from.len()..];
                }
                out.push_str(rest);
                s = out;
            }
        }
    }
    s
}

fn lit_str(e: &syn::Expr) -> Option<String> {
    if let syn::Expr::Lit(syn::ExprLit { lit: syn::Lit::Str(s), .. }) = e {
        Some(s.value())
    } else {
        None
    }
}

#[derive(Default)]
struct Attrs {
    derives: Vec<String>,
    serde: serde_json::Map<String, Value>,
    deprecated: Option<Value>,
    allow: Vec<String>,
    other: Vec<String>,
}

fn read_attrs(attrs: &[syn::Attribute]) -> Attrs {
    use quote::ToTokens;
    let mut a = Attrs::default();
    for attr in attrs {
        let path = attr.path().to_token_stream().to_string().replace(' ', "");
        match path.as_str() {
            "derive" => {
                let _ = attr.parse_nested_meta(|m| {
                    a.derives.push(m.path.to_token_stream().to_string().replace(' ', ""));
                    Ok(())
                });
            }
            "serde" => {
                let _ = attr.parse_nested_meta(|m| {
                    let k = m.path.to_token_stream().to_string().replace(' ', "");
                    if m.input.peek(syn::Token![=]) {
                        let v: syn::Expr = m.value()?.parse()?;
                        a.serde.insert(k, lit_str(&v).map(Value::String).unwrap_or(Value::String(v.to_token_stream().to_string())));
                    } else {
                        a.serde.insert(k, Value::Bool(true));
                    }
                    Ok(())
                });
            }
            "deprecated" => {
                let mut note = Value::Null;
                if let syn::Meta::List(_) = &attr.meta {
                    let _ = attr.parse_nested_meta(|m| {
                        let k = m.path.to_token_stream().to_string();
                        let v: syn::Expr = m.value()?.parse()?;
                        if k == "note" {
                            note = lit_str(&v).map(Value::String).unwrap_or(Value::Null);
                        }
                        Ok(())
                    });
                }
                a.deprecated = Some(json!({ "note": note }));
            }
            "allow" => {
                let _ = attr.parse_nested_meta(|m| {
                    a.allow.push(m.path.to_token_stream().to_string().replace(' ', ""));
                    Ok(())
                });
            }
            _ => a.other.push(attr.to_token_stream().to_string()),
        }
    }
    a
}

fn fields_json(fields: &syn::Fields) -> Vec<Value> {
    fields
        .iter()
        .map(|f| {
            let a = read_attrs(&f.attrs);
            let ident = f.ident.as_ref().map(|i| i.to_string());
            let key = a.serde.get("rename").and_then(Value::as_str).map(str::to_owned).or_else(|| ident.clone().map(|i| i.trim_start_matches("r#").to_owned()));
            json!({
                "ident": ident,
                "key": key,
                "type": ty_str(&f.ty),
                "vis": matches!(f.vis, syn::Visibility::Public(_)),
                "serde": Value::Object(a.serde),
                "deprecated": a.deprecated,
                "other_attrs": a.other,
            })
        })
        .collect()
}

fn inspect_items(items: &[syn::Item], path: &mut Vec<String>, out: &mut Vec<Value>) {
    use quote::ToTokens;
    for item in items {
        match item {
            syn::Item::Mod(m) => {
                let a = read_attrs(&m.attrs);
                out.push(json!({"kind": "mod", "path": path.clone(), "name": m.ident.to_string(), "vis": m.vis.to_token_stream().to_string(), "other_attrs": a.other}));
                if let Some((_, items)) = &m.content {
                    path.push(m.ident.to_string());
                    inspect_items(items, path, out);
                    path.pop();
                }
            }
            syn::Item::Struct(s) => {
                let a = read_attrs(&s.attrs);
                out.push(json!({"kind": "struct", "path": path.clone(), "name": s.ident.to_string(), "vis": s.vis.to_token_stream().to_string(),
                    "derives": a.derives, "serde": Value::Object(a.serde), "unit": matches!(s.fields, syn::Fields::Unit), "fields": fields_json(&s.fields)}));
            }
            syn::Item::Enum(e) => {
                let a = read_attrs(&e.attrs);
                let variants: Vec<Value> = e
                    .variants
                    .iter()
                    .map(|v| {
                        let va = read_attrs(&v.attrs);
                        let payload: Vec<String> = v.fields.iter().map(|f| ty_str(&f.ty)).collect();
                        json!({"ident": v.ident.to_string(), "serde": Value::Object(va.serde), "payload": payload})
                    })
                    .collect();
                out.push(json!({"kind": "enum", "path": path.clone(), "name": e.ident.to_string(), "vis": e.vis.to_token_stream().to_string(),
                    "derives": a.derives, "serde": Value::Object(a.serde), "variants": variants}));
            }
            syn::Item::Type(t) => {
                out.push(json!({"kind": "alias", "path": path.clone(), "name": t.ident.to_string(), "vis": t.vis.to_token_stream().to_string(), "target": ty_str(&t.ty)}));
            }
            syn::Item::Const(c) => {
                out.push(json!({"kind": "const", "path": path.clone(), "name": c.ident.to_string(), "value": lit_str(&c.expr), "expr": c.expr.to_token_stream().to_string()}));
            }
            syn::Item::Impl(i) => {
                let tr = i.trait_.as_ref().map(|(_, p, _)| p.to_token_stream().to_string().replace(' ', ""));
                let fns: Vec<String> = i
                    .items
                    .iter()
                    .filter_map(|it| if let syn::ImplItem::Fn(f) = it { Some(f.sig.ident.to_string()) } else { None })
                    .collect();
                let types: Vec<Value> = i
                    .items
                    .iter()
                    .filter_map(|it| if let syn::ImplItem::Type(t) = it { Some(json!([t.ident.to_string(), ty_str(&t.ty)])) } else { None })
                    .collect();
                out.push(json!({"kind": "impl", "path": path.clone(), "trait": tr, "for": ty_str(&i.self_ty), "fns": fns, "types": types}));
            }
            syn::Item::Use(u) => {
                out.push(json!({"kind": "use", "path": path.clone(), "tree": u.tree.to_token_stream().to_string().replace(' ', "")}));
            }
            other => {
                out.push(json!({"kind": "other", "path": path.clone(), "text": other.to_token_stream().to_string()}));
            }
        }
    }
}

fn inspect(ts: TokenStream) -> Value {
    match syn::parse2::<syn::File>(ts) {
        Ok(file) => {
            let mut out = Vec::new();
            inspect_items(&file.items, &mut Vec::new(), &mut out);
            json!({ "items": out })
        }
        Err(e) => json!({ "parse_error": e.to_string() }),
    }
}

fn respond_ok(req: &Value, ts: TokenStream) -> Value {
    let mut resp = json!({"id": req["id"], "outcome": "ok"});
    let want: Vec<&str> = req.get("want").and_then(Value::as_array).map(|a| a.iter().filter_map(Value::as_str).collect()).unwrap_or_else(|| vec!["tokens"]);
    if want.contains(&"tokens") {
        resp["tokens"] = Value::String(ts.to_string());
    }
    if want.contains(&"pretty") {
        let mut s = String::new();
        pretty(ts.clone(), &mut s, 0);
        resp["pretty"] = Value::String(s);
    }
    if want.contains(&"inspect") {
        resp["inspect"] = inspect(ts);
    }
    resp
}

fn handle_caught(req: &Value) -> Value {
    LAST_PANIC.with(|p| *p.borrow_mut() = None);
    let r = std::panic::catch_unwind(std::panic::AssertUnwindSafe(|| generate(req)));
    match r {
        Ok(Ok(ts)) => respond_ok(req, ts),
        Ok(Err(e)) => json!({"id": req["id"], "outcome": "err", "message": e}),
        Err(_) => {
            let msg = LAST_PANIC.with(|p| p.borrow_mut().take()).unwrap_or_default();
            json!({"id": req["id"], "outcome": "panic", "message": msg})
        }
    }
}

fn install_quiet_hook() {
    std::panic::set_hook(Box::new(|info| {
        let msg = if let Some(s) = info.payload().downcast_ref::<&str>() {
            s.to_string()
        } else if let Some(s) = info.payload().downcast_ref::<String>() {
            s.clone()
        } else {
            "<non-string panic payload>".to_owned()
        };
        let loc = info.location().map(|l| format!(" @{}:{}", l.file(), l.line())).unwrap_or_default();
        LAST_PANIC.with(|p| *p.borrow_mut() = Some(format!("{msg}{loc}")));
    }));
}

fn cache_events() -> Value {
    let ev = graphql_client_codegen::verif_take_cache_events();
    Value::Array(ev.into_iter().map(|(c, k, kind, t)| json!([if c.contains("Schema") { "schema" } else { "query" }, k, kind, t])).collect())
}

fn main() {
    let mode = std::env::args().nth(1).unwrap_or_else(|| "serve".into());
    match mode.as_str() {
        "serve" => {
            install_quiet_hook();
            let stdin = std::io::stdin();
            let stdout = std::io::stdout();
            for line in stdin.lock().lines() {
                let line = line.unwrap();
                if line.trim().is_empty() {
                    continue;
                }
                let req: Value = serde_json::from_str(&line).expect("bad request json");
                let mut resp = handle_caught(&req);
                if req.get("events").and_then(Value::as_bool).unwrap_or(false) {
                    resp["events"] = cache_events();
                }
                let mut o = stdout.lock();
                serde_json::to_writer(&mut o, &resp).unwrap();
                o.write_all(b"\n").unwrap();
                o.flush().unwrap();
            }
        }
        "one" => {
            // nothing caught on purpose: the exit status is the observation
            let mut s = String::new();
            std::io::stdin().read_to_string(&mut s).unwrap();
            let req: Value = serde_json::from_str(&s).expect("bad request json");
            match generate(&req) {
                Ok(ts) => {
                    println!("{}", respond_ok(&req, ts));
                    std::process::exit(0);
                }
                Err(e) => {
                    println!("{}", json!({"id": req["id"], "outcome": "err", "message": e}));
                    std::process::exit(2);
                }
            }
        }
        "stampede" => {
            install_quiet_hook();
            let mut s = String::new();
            // job from a file (argv[2]) when given: under `miri -Zmiri-many-seeds` the program runs many times
            match std::env::args().nth(2) {
                Some(path) => s = std::fs::read_to_string(path).expect("job file"),
                None => {
                    std::io::stdin().read_to_string(&mut s).unwrap();
                }
            }
            let job: Value = serde_json::from_str(&s).expect("bad job json");
            let threads = job["threads"].as_array().unwrap().clone();
            let sleeps = job.get("sleeps_us").and_then(Value::as_array).cloned().unwrap_or_default();
            let n = threads.len();
            // lockstep: every thread waits for all the others before EACH call (all threads have equally many calls), so that
            // the same phase of n calls overlaps as much as the machine allows; otherwise only the start is synchronised
            let lockstep = job.get("lockstep").and_then(Value::as_bool).unwrap_or(false);
            let barrier = std::sync::Arc::new(std::sync::Barrier::new(n));
            let mut handles = Vec::new();
            for (ti, calls) in threads.into_iter().enumerate() {
                let barrier = barrier.clone();
                let sl: Vec<u64> = sleeps.get(ti).and_then(Value::as_array).map(|a| a.iter().map(|v| v.as_u64().unwrap_or(0)).collect()).unwrap_or_default();
                handles.push(std::thread::Builder::new().stack_size(16 << 20).spawn(move || {
                    barrier.wait();
                    let mut out = Vec::new();
                    for (ci, req) in calls.as_array().unwrap().iter().enumerate() {
                        // delays are placed between calls, never inside the cache's critical section
                        if let Some(us) = sl.get(ci) {
                            if *us > 0 {
                                std::thread::sleep(std::time::Duration::from_micros(*us));
                            }
                        }
                        if lockstep {
                            barrier.wait();
                        }
                        let mut r = handle_caught(req);
                        r["thread"] = json!(ti);
                        r["thread_id"] = json!(format!("{:?}", std::thread::current().id()));
                        out.push(r);
                    }
                    out
                }).unwrap());
            }
            let mut results = Vec::new();
            for h in handles {
                results.push(Value::Array(h.join().unwrap()));
            }
            println!("{}", json!({"results": results, "events": cache_events()}));
        }
        other => {
            eprintln!("unknown mode {other}");
            std::process::exit(64);
        }
    }
}
