#!/usr/bin/env python3
"""Seeded-change bookkeeping (authoring tool, not part of any registered check).

  seeded.py confirm <agent-worktree>/demo/<mN> <seeded-id> <property>
      re-establishes, in a scratch worktree of /repo (outside /repo and /verif), that the change
      (1) applies, (2) builds and passes the existing test suite, (3) makes the demonstration fail,
      while the demonstration passes on the unchanged tree; on success copies patch.diff, the demo and
      meta.json to /verif/seeded/<seeded-id>/.
  seeded.py evaluate <seeded-id> [--tier quick|thorough] [checks...]
      applies the change to /repo, runs the given checks (default: the property's own), records which
      fired in /verif/seeded/<seeded-id>/meta.json, and restores /repo (git checkout -- .).
"""
import json
import os
import shutil
import subprocess
import sys
import time

VERIF = os.path.dirname(os.path.dirname(os.path.abspath(__file__)))
SEEDED = os.path.join(VERIF, "seeded")
SCRATCH = os.environ.get("SEEDED_SCRATCH", "/tmp/seeded-confirm")     # SEEDED_SCRATCH: a second confirmation lane


def pick_patch(d, cwd):
    """patch.diff as delivered; patch.rebased.diff (same change carried over by hand) when /repo's HEAD has moved under it"""
    for name in ("patch.rebased.diff", "patch.diff"):
        p = os.path.join(d, name)
        if os.path.exists(p) and subprocess.run(["git", "apply", "--check", p], cwd=cwd, capture_output=True).returncode == 0:
            return p
    return os.path.join(d, "patch.diff")


def sh(cmd, cwd=None, timeout=3600, env=None):
    p = subprocess.run(cmd, cwd=cwd, shell=isinstance(cmd, str), capture_output=True, text=True, timeout=timeout, env=env)
    return p.returncode, p.stdout + p.stderr


def ensure_scratch():
    if not os.path.isdir(SCRATCH):
        rc, out = sh(["git", "-C", "/repo", "worktree", "add", "--detach", SCRATCH, "HEAD"])
        if rc != 0:
            raise SystemExit(out)
    else:
        sh(["git", "checkout", "--detach", "-q", subprocess.run(["git", "-C", "/repo", "rev-parse", "HEAD"], capture_output=True, text=True).stdout.strip()], cwd=SCRATCH)
    sh("git checkout -- . && git clean -fdq", cwd=SCRATCH)


def test_suite(cwd):
    env = dict(os.environ, CARGO_TARGET_DIR=os.path.join(cwd, "target"), CARGO_NET_OFFLINE="true")
    env.pop("RUSTFLAGS", None)
    rc, out = sh(["cargo", "test", "--workspace", "--no-fail-fast", "--offline"], cwd=cwd, env=env)
    passed = failed = 0
    for line in out.splitlines():
        if line.startswith("test result:"):
            parts = line.split()
            passed += int(parts[3])
            failed += int(parts[5])
    return rc, passed, failed, out


def confirm(demo_dir, sid, prop):
    ensure_scratch()
    meta = {"id": sid, "property": prop, "source": demo_dir, "confirmed_at": time.strftime("%Y-%m-%dT%H:%M:%SZ", time.gmtime()), "ran": []}
    patch = pick_patch(demo_dir, SCRATCH)
    meta["patch_used"] = os.path.basename(patch)
    work_demo = os.path.join(SCRATCH, "demo", os.path.basename(demo_dir))
    shutil.rmtree(os.path.join(SCRATCH, "demo"), ignore_errors=True)
    shutil.copytree(demo_dir, work_demo)
    env = dict(os.environ, CARGO_TARGET_DIR=os.path.join(SCRATCH, "target"), CARGO_NET_OFFLINE="true")
    env.pop("RUSTFLAGS", None)
    # 1. demo on the unchanged tree
    rc0, out0 = sh(["sh", "run.sh", SCRATCH], cwd=work_demo, env=env)
    meta["ran"].append("sh run.sh <unchanged tree> -> exit %d" % rc0)
    # keep demo files out of git's way
    rc, out = sh(["git", "apply", "--check", patch], cwd=SCRATCH)
    if rc != 0:
        print("patch does not apply:", out[-500:])
        return False
    sh(["git", "apply", patch], cwd=SCRATCH)
    trc, passed, failed, tout = test_suite(SCRATCH)
    meta["ran"].append("cargo test --workspace --no-fail-fast --offline (changed tree) -> exit %d, %d passed, %d failed" % (trc, passed, failed))
    rc1, out1 = sh(["sh", "run.sh", SCRATCH], cwd=work_demo, env=env)
    meta["ran"].append("sh run.sh <changed tree> -> exit %d" % rc1)
    sh("git checkout -- . && git clean -fdq", cwd=SCRATCH)
    ok = rc0 == 0 and rc1 != 0 and trc == 0 and failed == 0 and passed >= 59
    print("demo unchanged: exit %d | tests with change: rc=%d passed=%d failed=%d | demo changed: exit %d  => %s" % (rc0, trc, passed, failed, rc1, "CONFIRMED" if ok else "REJECTED"))
    if not ok:
        if rc0 != 0:
            print("--- demo output on unchanged tree:\n", out0[-1500:])
        if trc != 0 or failed:
            print("--- test output:\n", tout[-1500:])
        if rc1 == 0:
            print("--- demo output on changed tree:\n", out1[-800:])
        return False
    dst = os.path.join(SEEDED, sid)
    shutil.rmtree(dst, ignore_errors=True)
    shutil.copytree(demo_dir, dst, ignore=shutil.ignore_patterns("target", "*.lock.bak"))
    readme = os.path.join(demo_dir, "README.md")
    meta["breaks"] = prop
    meta["needs_to_manifest"] = open(readme).read()[:3000] if os.path.exists(readme) else ""
    meta["tests_with_change"] = {"passed": passed, "failed": failed}
    meta["detected_by"] = {}
    json.dump(meta, open(os.path.join(dst, "meta.json"), "w"), indent=1)
    return True


def evaluate(sid, tier, checks):
    dst = os.path.join(SEEDED, sid)
    meta = json.load(open(os.path.join(dst, "meta.json")))
    if not checks:
        checks = [meta["property"]]
    rc, out = sh(["git", "-C", "/repo", "status", "--porcelain"])
    if out.strip():
        raise SystemExit("/repo is not clean:\n" + out)
    rc, out = sh(["git", "-C", "/repo", "apply", pick_patch(dst, "/repo")])
    if rc != 0:
        raise SystemExit("patch does not apply to /repo: " + out)
    try:
        for c in checks:
            t0 = time.time()
            rc, out = sh([os.path.join(VERIF, "check"), c, "--tier", tier], cwd=VERIF, timeout=7200, env=dict(os.environ, VERIF_NO_EVIDENCE="1"))
            viol = [l for l in out.splitlines() if l.startswith("VIOLATION")]
            syms = [l.strip() for l in out.splitlines() if l.strip().startswith("case=")]
            last = out.strip().splitlines()[-1] if out.strip() else ""
            meta["detected_by"]["%s/%s" % (c, tier)] = {"exit": rc, "violations": len(viol), "first": (syms[0][:300] if syms else ""), "summary": last[:200], "wall_s": round(time.time() - t0, 1)}
            print("%s %s/%s: exit %d, %d VIOLATION lines %s" % (sid, c, tier, rc, len(viol), ("| " + syms[0][:160]) if syms else ""))
    finally:
        sh(["git", "-C", "/repo", "checkout", "--", "."])
        sh(["git", "-C", "/repo", "clean", "-fdq", "--", "graphql_client", "graphql_client_codegen", "graphql_query_derive", "graphql_client_cli", "graphql-introspection-query"])
    json.dump(meta, open(os.path.join(dst, "meta.json"), "w"), indent=1)


if __name__ == "__main__":
    if sys.argv[1] == "confirm":
        sys.exit(0 if confirm(sys.argv[2].rstrip("/"), sys.argv[3], sys.argv[4]) else 1)
    elif sys.argv[1] == "evaluate":
        tier = "quick"
        args = sys.argv[3:]
        if "--tier" in args:
            i = args.index("--tier")
            tier = args[i + 1]
            args = args[:i] + args[i + 2:]
        evaluate(sys.argv[2], tier, args)
    elif sys.argv[1] == "cleanup":
        sh(["git", "-C", "/repo", "worktree", "remove", "--force", SCRATCH])
