#!/usr/bin/env python3
"""Cross-evaluation of the seeded changes (authoring tool): every seeded change x every quick check,
in scratch worktrees outside /repo and /verif (VERIF_REPO mode of vlib/build.py), several at a time.
Results go to seeded/<id>/meta.json under "cross".   usage: xeval.py [slots] [ids...]"""
import json
import os
import subprocess
import sys
import time
from concurrent.futures import ThreadPoolExecutor

VERIF = os.path.dirname(os.path.dirname(os.path.abspath(__file__)))
SEEDED = os.environ.get("XEVAL_DIR") or os.path.join(VERIF, "seeded")      # XEVAL_DIR=benign: the property-preserving changes
CHECKS = ["C%02d" % i for i in range(1, 21)]
HEAD = subprocess.run(["git", "-C", VERIF, "rev-parse", "--short", "HEAD"], capture_output=True, text=True).stdout.strip()


def pick_patch(d, cwd):
    """patch.diff as delivered; patch.rebased.diff (same change carried over by hand) when /repo's HEAD has moved under it"""
    for name in ("patch.rebased.diff", "patch.diff"):
        p = os.path.join(d, name)
        if os.path.exists(p) and subprocess.run(["git", "apply", "--check", p], cwd=cwd, capture_output=True).returncode == 0:
            return p
    return os.path.join(d, "patch.diff")


def sh(cmd, **kw):
    p = subprocess.run(cmd, capture_output=True, text=True, **kw)
    return p.returncode, p.stdout + p.stderr


def slot_worker(slot, ids):
    wt = "/tmp/xeval%s/slot%d" % (os.environ.get("XEVAL_TAG", ""), slot)
    if not os.path.isdir(wt):
        rc, out = sh(["git", "-C", "/repo", "worktree", "add", "--detach", wt, "HEAD"])
        if rc:
            print(out)
            return
    for sid in ids:
        sh(["git", "checkout", "--", "."], cwd=wt)
        sh(["git", "clean", "-fdq"], cwd=wt)
        rc, out = sh(["git", "apply", pick_patch(os.path.join(SEEDED, sid), wt)], cwd=wt)
        if rc:
            print(sid, "patch does not apply", out[-200:])
            continue
        mp = os.path.join(SEEDED, sid, "meta.json")
        meta = json.load(open(mp))
        cross = {}
        env = dict(os.environ, VERIF_REPO=wt, VERIF_NO_EVIDENCE="1", VERIF_SKIP_MIRI="1")
        own_only = bool(os.environ.get("XEVAL_OWN"))     # only the property's own check, recorded under detected_by
        only = [c for c in os.environ.get("XEVAL_CHECKS", "").split(",") if c]      # XEVAL_CHECKS=C01,C19: a subset of the matrix
        for c in ([meta["property"]] if own_only else (only or CHECKS)):
            t0 = time.time()
            rc, out = sh([os.path.join(VERIF, "check"), c, "--tier", "quick"], cwd=VERIF, env=env, timeout=3600)
            viol = [l for l in out.splitlines() if l.startswith("VIOLATION")]
            syms = [l.strip() for l in out.splitlines() if l.strip().startswith("case=")]
            cross[c] = {"exit": rc, "violations": len(viol), "first": syms[0][:200] if syms else "", "wall_s": round(time.time() - t0, 1)}
        if own_only:
            meta = json.load(open(mp))
            last = out.strip().splitlines()[-1] if out.strip() else ""
            meta.setdefault("detected_by", {})["%s/quick" % meta["property"]] = dict(cross[meta["property"]], summary=last[:200], machinery=HEAD)
        else:
            meta.setdefault("cross", {}).update(cross)
        json.dump(meta, open(mp, "w"), indent=1)
        print(sid, "fired:", [c for c in cross if cross[c]["violations"]], flush=True)
    sh(["git", "-C", "/repo", "worktree", "remove", "--force", wt])


if __name__ == "__main__":
    slots = int(sys.argv[1]) if len(sys.argv) > 1 else 4
    ids = sys.argv[2:] or sorted(os.listdir(SEEDED))
    parts = [ids[i::slots] for i in range(slots)]
    with ThreadPoolExecutor(slots) as ex:
        list(ex.map(lambda a: slot_worker(*a), enumerate(parts)))
