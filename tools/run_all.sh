#!/bin/sh
# run every claimed check (default: quick tier) and print one line per check
cd "$(dirname "$0")/.."
TIER=${1:-quick}
for p in $(python3 -c "import json;print(' '.join(c['property_id'] for c in json.load(open('MANIFEST.json'))['checks']))"); do
  out=$(./check $p --tier $TIER 2>&1); rc=$?
  echo "rc=$rc $(echo "$out" | tail -1)"
  echo "$out" | grep -E "^(VIOLATION|KNOWN-FINDING|note:|Traceback)" | cut -c1-200 | head -5
done
