#!/usr/bin/env python3
"""Authoring helper: writes /verif/MANIFEST.json from the table below (only properties whose
check module exists under vlib/props are claimed; the others go under not_applicable)."""
import json
import os
import subprocess

ROOT = os.path.dirname(os.path.dirname(os.path.abspath(__file__)))

CHECKS = {
    "C01": ("exploration", "runtime monitor: resp trace of compiled generated types vs CollectFields reference model",
            "Held on every conforming payload generated for the clean document grammar and for the spec-valid borderline variants the generator happens to accept: real generator -> real rustc -> generated serde code executed on payloads (value, text and reader deserializers); shape-guided lossless round-trip oracle.",
            "Reference model of response shapes (vlib/shape.py), clean-grammar definition of 'supported', serde/rustc versions of /repo/Cargo.lock.", "5/C01", "B"),
    "C02": ("exploration", "runtime monitor: generator result + rustc diagnostics per case over option sets and delivery forms",
            "Every sampled (schema, document, options) is generated and type-checked by the real rustc in the library, CLI-file, derive and serde-less derive forms; diagnostics attributed per case.",
            "Clean grammar = supported subset; consumer supplies String scalars and hand-written extern enums; traits requested are implementable.", "5/C02", "B"),
    "C03": ("exploration", "runtime monitor: resp trace on single-point corruptions of conforming payloads",
            "Every corruption of the catalogue at every position of sampled payloads must be rejected (or give Unknown with the other-variant option); a fifth of the cases is delivered through the derive macro.",
            "Corruption catalogue of vlib/shape.py; custom scalars excluded.", "5/C03", "B"),
    "C04": ("exploration", "runtime monitor: vars trace judged by an independent schema-driven input validator",
            "Valid assignments are deserialised into Variables, serialised through build_query and judged against the schema (validator), the assignment and the exact skip-none rule; single-point invalid assignments probe the value space of the generated types (whatever is accepted must still serialise validly).",
            "Validator and value generator of vlib (GraphQL input coercion + @oneOf RFC).", "5/C04", "B"),
    "C05": ("exploration", "runtime monitor: QUERY / OPERATION_NAME / body members and selection outcomes vs the written document",
            "Byte equality of QUERY with the source text for hostile document texts, operation provenance vectors, derive / CLI selection matrix incl. no-fallback.",
            "Document text generator (whitespace, comments, escapes, CRLF, non-ASCII); explicit non-matching name in CLI/library form is not constrained by the statement.", "5/C05", "A+B"),
    "C06": ("exploration", "runtime monitor: generator result on model-validated invalidating edits at every position",
            "Every single invalidating edit (11 rules) of sampled clean pairs must not yield Ok; a query file given in one process to its own schema and to one that cannot answer it is accepted / refused accordingly.",
            "Edit validity decided by the model (possible-type intersection).", "5/C06", "A"),
    "C07": ("exploration", "differential monitor: token streams for 7 renderings of one schema model",
            "Same (document, options) against SDL / JSON renderings: exact token equality when order is preserved, canonical item multiset otherwise.",
            "Renderers share one schema model.", "5/C07", "A"),
    "C08": ("exploration", "history monitor vs fresh-process reference (calls, threads, processes, CLI invocations sharing a directory) + Miri + ThreadSanitizer; cache event log recorded as observation",
            "Sequential histories, 2..16-thread stampedes (lockstep on deeply nested documents), Miri-scheduled runs, stampedes in a ThreadSanitizer build (std instrumented) and a history of CLI invocations into one output directory: each call equals the same call alone in a fresh process / directory; no UB or data race reported; no driver process ends with every thread parked in an endless wait (deadlock monitor). Cache fills / hits / lock orders are reported, not judged.",
            "OS / Miri schedules observed are recorded, not enumerated.", "5/C08", "A"),
    "C09": ("exploration", "metamorphic monitor: same vectors under several wire-neutral option sets",
            "Observations (accept/reject, re-serialised payloads, serialised variables) must be identical under every sampled combination of wire-neutral options.",
            "Extern enums supplied with the reference wire behaviour, or strict in groups where every member declares them external.", "5/C09", "B"),
    "C10": ("exploration", "runtime monitor: enum trace (string -> enum -> Debug + string)",
            "Schema value names map to distinct non-Other variants and back; any other string maps to Other(s) and back; non-strings rejected.",
            "Debug output used only to tell variants apart.", "5/C10", "B"),
    "C11": ("exploration", "runtime monitor: rustc verdict + wire keys per (name, position)",
            "Every keyword of the Rust reference and every case style at every name position: compiles, and the wire name is the GraphQL name.",
            "Keyword list taken from the Rust reference (2015-2021), not from the code's table.", "5/C11", "B"),
    "C12": ("exploration", "runtime monitor: rustc E0072 verdict + containment-graph pre-screen + JSON round trip",
            "All input graphs on <= 2 types (exhaustive) + random 3-4 type graphs + fragment recursion patterns compile; recursive values round-trip.",
            "Pre-screen validated against rustc on every run.", "5/C12", "A+B"),
    "C13": ("exploration", "invariant on every emitted field type (syn) vs independent rule; finite space enumerated completely",
            "All 62 expressions x kinds x positions x formats compared with the reference rule on every run (exhaustive: true).",
            "Types read from the token stream; compilation is C02/C16's business.", "5/C13", "A"),
    "C14": ("exploration", "invariant on emitted attributes / field sets (syn) + resp trace under deny",
            "Per-field expectation from schema + strategy for allow/warn/deny/unset; deny cases compiled and fed payloads with the deprecated keys.",
            "Response key -> schema field is a function in the generated schemas.", "5/C14", "A+B"),
    "C15": ("exploration", "runtime monitor: runtime-crate driver trace vs grammar acceptance, round trip, reference Display",
            "Grammar-generated bodies accepted, re-serialised without loss, deserialize(serialize(r)) = r, Display equals the reference (also under callers' format specs and after writes into failing sinks); subset under Miri.",
            "Response grammar of the GraphQL spec (June 2018, section 7).", "5/C15", "D"),
    "C16": ("exploration", "runtime monitor: ID helper calls along several serde routes + compiled ID positions",
            "Reference coercion table on boundary values through from_str / from_value / flatten / tagged; compiled ID positions incl. negative controls.",
            "List-of-ID positions belong to the clean corpus since the K3 repair.", "5/C16", "D+B"),
    "C17": ("exploration", "process monitor: exit status / signal / CPU time of an isolated worker per adversarial input",
            "Worker must end by return or panic-with-message; never by signal, never > 20 s CPU, never deadlocked (all threads in a futex wait without timeout, none scheduled again) - also when a failing input is followed by further inputs in the same worker, as between the derives of one crate.",
            "8 MB main-thread stack; CPU time from wait4; CPU time is not judged for the long-chain class (quadratic walks); open finding K10 (60,000-type input chain).", "5/C17", "A"),
    "C18": ("exploration", "differential monitor: attribute extraction vs reference parser; derive event log vs library route",
            "Attribute texts over key subsets / orders / literal styles; real derives compared with the library called with the written options.",
            "Reference attribute parser of vlib/gen_attr.py.", "5/C18", "attrdrv+B"),
    "C19": ("exploration", "process monitor: CLI exit status + files vs library output",
            "Flag combinations x pairs: file == header + library tokens (same rustfmt when formatting), placement, no file and non-zero exit on error.",
            "Same rustfmt binary as the CLI spawns.", "5/C19", "C"),
    "C20": ("fault_enumeration", "process + mock-server monitor: request log, exit status, output file hash over enumerated server behaviours",
            "Flags x headers x output modes x server behaviours (200 JSON / garbage / empty / JSON followed by trailing bytes, incomplete HTTP messages, 4xx, 5xx, refused, closed early / mid-body): request as specified, output JSON-equal, untouched on failure.",
            "--no-ssl not exercisable (no TLS peer); loopback networking.", "5/C20", "C+mock"),
}

NOT_BUILT = "check not built yet (machinery under construction; see DESIGN.md section 10)"


def main():
    props = [json.loads(l)["id"] for l in open(os.path.join(ROOT, "properties.jsonl"))]
    checks, na = [], []
    for p in props:
        if os.path.exists(os.path.join(ROOT, "vlib", "props", p.lower() + ".py")):
            lvl, tech, text, note, ref, eng = CHECKS[p]
            checks.append({"property_id": p, "quick_cmd": "./check %s --tier quick" % p, "thorough_cmd": "./check %s --tier thorough" % p,
                           "evidence_file": "evidence/%s.json" % p, "replay_cmd_template": "./check %s --replay {path}" % p, "engine": eng,
                           "level_claimed": {"category": lvl, "text": text, "design_ref": ref}, "level_note": note, "technique": tech})
        else:
            na.append({"property_id": p, "reason": NOT_BUILT})
    try:
        commits = subprocess.run(["git", "-C", "/repo", "log", "--format=%H %s"], capture_output=True, text=True).stdout.splitlines()
        hooks = [c.split()[0] for c in commits if "verif hook" in c]
    except Exception:
        hooks = []
    m = {"version": 1,
         "setup_cmd": "./setup.sh",
         "hooks": {"guard": "--cfg graphql_client_verif",
                   "enable": "RUSTFLAGS=\"--cfg graphql_client_verif --check-cfg cfg(graphql_client_verif)\" (set by vlib/build.py for every build of /repo crates)",
                   "baseline_off_cmd": "cd /repo && cargo test --workspace --no-fail-fast --offline",
                   "source_commits": hooks, "add_only": True},
         "engines": [{"name": "A", "path": "harness/gendrv", "kind_free_text": "in-process JSONL driver around the codegen library (serve / one / stampede)", "serves_properties": ["C05", "C06", "C07", "C08", "C12", "C13", "C14", "C17"]},
                     {"name": "B", "path": "vlib/factory.py", "kind_free_text": "consumer-crate factory: generated code compiled by rustc and run by a generic probe", "serves_properties": ["C01", "C02", "C03", "C04", "C05", "C09", "C10", "C11", "C12", "C14", "C16", "C18"]},
                     {"name": "C", "path": "vlib/props/c19.py", "kind_free_text": "the graphql-client binary built from the working tree, run as a subprocess (plus a loopback mock server)", "serves_properties": ["C19", "C20"]},
                     {"name": "D", "path": "harness/envdrv", "kind_free_text": "driver linked to the graphql_client runtime crate", "serves_properties": ["C15", "C16"]}],
         "checks": checks, "not_applicable": na,
         "notes": "Single entry point ./check <Cxx> --tier quick|thorough [--replay FILE]; VERIF_SEED seeds every generator. Known findings: known_findings.json (read-only at run time)."}
    json.dump(m, open(os.path.join(ROOT, "MANIFEST.json"), "w"), indent=1)
    print("claimed:", [c["property_id"] for c in checks])
    print("not yet:", [n["property_id"] for n in na])


if __name__ == "__main__":
    main()
