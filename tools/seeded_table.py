#!/usr/bin/env python3
"""prints the markdown table of seeded changes (DESIGN.md section 8.2) from seeded/*/meta.json"""
import json
import os
import sys

VERIF = os.path.dirname(os.path.dirname(os.path.abspath(__file__)))
SEEDED = os.path.join(VERIF, "seeded")
ONE = {}
try:
    ONE = json.load(open(os.path.join(SEEDED, "summaries.json")))
except Exception:
    pass
print("| id | breaks | change (one line) | own check before its report was used | own check, final machinery | other quick checks that fire |")
print("|---|---|---|---|---|---|")
for sid in sorted(os.listdir(SEEDED)):
    mp = os.path.join(SEEDED, sid, "meta.json")
    if not os.path.exists(mp):
        continue
    m = json.load(open(mp))
    prop = m["property"]
    own = m.get("detected_by", {}).get("%s/quick" % prop)
    cross = m.get("cross", {})
    if own is None and prop in cross:
        own = cross[prop]
    own_s = "-" if own is None else ("fires (%d)" % own["violations"] if own["violations"] else "silent")
    others = [c for c, r in sorted(cross.items()) if r["violations"] and c != prop]
    first = "see text"
    if m.get("cross_commit") and prop in cross:
        first = "fires (%d)" % cross[prop]["violations"] if cross[prop]["violations"] else "silent"
    elif m.get("frozen_own"):
        fo = (m["frozen_own"]["result"] or {}).get("%s/quick" % prop) or {}
        first = "fires (%d)" % fo["violations"] if fo.get("violations") else "silent"
    print("| %s | %s | %s | %s | %s | %s%s |" % (sid, prop, ONE.get(sid, ""), first, own_s, ", ".join(others) or "-", " (frozen machinery)" if m.get("cross_commit") else (" (own check only)" if m.get("frozen_own") else "")))
