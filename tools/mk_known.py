#!/usr/bin/env python3
"""Authoring helper: writes /verif/known_findings.json from the entries below. Run by hand when
a finding is added, fixed or re-classified; checks only ever READ the JSON file."""
import json
import os

BASE = """interface Node { id: ID! }
type User implements Node { id: ID! name: String friends: [User!] best: User tags: [ID!]! }
type Dog implements Node { id: ID! barks: Boolean }
type Cat { lives: Int }
union Pet = Dog | User
scalar Date
enum Color { RED GREEN }
type Query { me: User! node: Node pet: Pet cat: Cat x: Int }
"""


def resp(vid, op, payload, expected):
    return {"id": vid, "kind": "resp", "target": op, "input": payload, "expect": {"ok": True, "reser": expected}, "label": "conforming"}


F = []


def add(id, prop, status, what, schema=BASE, document=None, vectors=None, hazard=None, symptoms=None, commit=None, also=None, options=None, engine="B", extra=None):
    e = {"id": id, "property": prop, "status": status, "what": what}
    if status == "fixed":
        e["record"] = "fixed: property=%s %s %s" % (prop, commit, what)
    if also:
        e["also"] = also
    if hazard:
        e["hazard"] = hazard
    if symptoms:
        e["symptoms"] = symptoms
    if commit:
        e["commit"] = commit
    w = {"engine": engine}
    if document is not None:
        w.update({"schema": schema, "document": document, "vectors": vectors or {}})
    if options:
        w["options"] = options
    if extra:
        w.update(extra)
    e["witness"] = w
    F.append(e)


# ---------------------------------------------------------------- fixed (regression witnesses; suppress nothing)
add("F4", "C01", "fixed", "`{ __typename }`-only selection on an object type generated an enum without variants; every response was rejected",
    commit="4e38acd", document="query Q { me { __typename } cat { __typename } }\n",
    vectors={"C01": [resp("w1", "Q", {"me": {"__typename": "User"}, "cat": None}, {"me": {}}),
                     resp("w2", "Q", {"me": {"__typename": "User"}, "cat": {"__typename": "Cat"}}, {"me": {}, "cat": {}})]}, also=["C14"])
add("F5", "C01", "fixed", "several inline fragments on one variant: the first one's fields were emitted for each, the others' dropped",
    commit="8b4913d", document="query Q { pet { __typename ... on Dog { id } ... on Dog { barks } ... on User { name } } }\n",
    vectors={"C01": [resp("w1", "Q", {"pet": {"__typename": "Dog", "id": "d1", "barks": True}}, {"pet": {"__typename": "Dog", "id": "d1", "barks": True}})]}, also=["C02"])
add("F16", "C01", "fixed", "variant with `... on T { ...Frag }` next to another `... on T { .. }` became an alias of Frag; the other fields were dropped",
    commit="6119d9e", document="query Q { pet { __typename ... on Dog { ...DF } ... on Dog { barks } } }\nfragment DF on Dog { id }\n",
    vectors={"C01": [resp("w1", "Q", {"pet": {"__typename": "Dog", "id": 7, "barks": False}}, {"pet": {"__typename": "Dog", "id": "7", "barks": False}})]})

# ---------------------------------------------------------------- open
add("K1", "C01", "open", "same response key reached through two Rust structs of one JSON object (field + spread, or two spreads): serde flatten consumes it once",
    hazard="dup-key", symptoms=[r"deser-error\[\w+\]: missing field", r"lossy\[\w+\] at "],
    document="query Q { me { id ...A } }\nfragment A on User { id name }\n",
    vectors={"C01": [resp("w1", "Q", {"me": {"id": "1", "name": "n"}}, {"me": {"id": "1", "name": "n"}})]})
add("K2", "C01", "open", "fragment / inline fragment with an abstract (or the parent's own) type condition inside an object selection is silently dropped from the response type",
    hazard="abstract-condition-in-object-scope", symptoms=[r"lossy\[\w+\] at "],
    document="query Q { me { ...NF } }\nfragment NF on Node { __typename id }\n",
    vectors={"C01": [resp("w1", "Q", {"me": {"__typename": "User", "id": "1"}}, {"me": {"id": "1"}})]})
add("K2b", "C01", "open", "inline fragment whose type condition is the enclosing type itself (`me { ... on User { name } }`) is silently dropped from the response type",
    hazard="inline-on-own-type", symptoms=[r"lossy\[\w+\] at "],
    document="query Q { me { ... on User { name } } node { __typename ... on Node { id } } }\n",
    vectors={"C01": [resp("w1", "Q", {"me": {"name": "n"}, "node": {"__typename": "Dog", "id": "3"}}, {"me": {"name": "n"}, "node": {"__typename": "Dog", "id": "3"}})]})


# ---- found by C02 / C04 / C06 machinery
add("F3", "C02", "fixed", "tagged enums (unions / interfaces) and @oneOf enums lacked #[serde(crate = ..)]: the derive did not compile in a consumer whose only dependency is graphql_client",
    commit="aa10e44", document="query Q { pet { __typename ... on Dog { barks } } }\n", extra={"form": "derive-noserde"}, options={"mode": "derive", "response_derives": "Debug"})
add("F13", "C19", "fixed", "`generate --module-visibility private` emitted `pub(private) mod ..` (E0704)", commit="bea772d", engine="C")
add("F14", "C02", "fixed", "a variable of type ID under normalization = \"rust\" referred to an undefined type `Id`",
    commit="bd6faee", document="query Q($id: ID!, $ids: [ID!]) { x }\n", options={"normalization": "rust"}, also=["C09", "C04"],
    vectors={"C04": [{"id": "w1", "kind": "vars", "target": "Q", "input": {"id": "7", "ids": ["a"]}, "expect": {"variables": {"id": "7", "ids": ["a"]}}}]})
add("F10", "C07", "fixed", "introspection JSON front-end ignored `isOneOf`: @oneOf inputs became all-optional structs (invalid on the wire)", commit="ff359bf", engine="A", also=["C04"])
add("F7", "C06", "fixed", "a type condition that can never apply under an object parent (`me { ... on Dog {..} }`, me: User) was accepted",
    commit="560f597", engine="A", extra={"schema": BASE, "document": "query Q { me { ... on Dog { barks } } }\n"})
add("K8", "C06", "open", "a field of object type selected without a sub-selection (`query Q { me }`) is accepted and yields an empty response type; "
    "not repairable as a fix: the repository's own fixture tests/input_object_variables/input_object_variables_query.graphql relies on it",
    hazard="K8", symptoms=[r"^accepted E3: no-subselection"], engine="A", extra={"schema": BASE, "document": "query Q { me }\n", "rule": "E3", "label": "no-subselection@op:Q/me"})


add("K11", "C10", "open", "SDL type extensions other than `extend type` are ignored: a value added by `extend enum Status { IN_REVIEW }` is not a variant and deserialises to Other(\"IN_REVIEW\") "
    "(likewise members added by `extend union`, fields by `extend interface` / `extend input`). The definition's own values are unaffected. A repair means four more ingestion passes in the SDL reader",
    hazard="K11", symptoms=[r"^schema value 'IN_REVIEW' deserialises to the catch-all"], engine="B-generated",
    extra={"schema": "enum Status { OPEN closed type }\ntype Query { e: Status }\nextend enum Status { IN_REVIEW }\n", "document": "query Q { e }\n"})
add("K10", "C17", "open", "a chain of 60,000 input types (I0 { next: I1 } ... ; flat SDL, 2.4 MB) used by a variable overflows the 8 MiB stack in the recursive "
    "used-input walk (schema.rs used_input_ids_recursive), SIGABRT; 30,000 still comes back (after 200 s: the walks are quadratic). A repair means "
    "rewriting both input-graph walks iteratively and still leaves quadratic time",
    hazard="K10", symptoms=[r"^killed-by-signal 6 \(long-chain-hazard\).*overflowed its stack"], engine="A",
    extra={"generator": "schema = ''.join('input I%d { next: I%d v: Int }' % (i, i+1) for i in range(60000)) + 'input I60000 { v: Int } type Query { f(a: I0): Int }'; query Q($a: I0) { f(a: $a) }"})
add("F1", "C17", "fixed", "fragment spread cycle without __typename on an interface / union overflowed the stack in the __typename search (SIGABRT)",
    commit="51c05cf", engine="A")
add("F2", "C08", "fixed", "a failing schema / query load poisoned the cache mutex: every later call in the process panicked with `cache is poisoned`",
    commit="506a915", engine="A")
add("F9", "C10", "fixed", "enum value `self` / `self_` / `Self` under normalization = \"rust\" became the invalid variant identifier `Self`",
    commit="8635165", also=["C11"], engine="B-generated")
add("F15", "C11", "fixed", "@oneOf member named `Self` was serialised as `Self_` (rename decided on the unescaped variant name)",
    commit="024d01b", also=["C04"], engine="B-generated")

add("F12", "C16", "fixed", "an absent nullable ID key failed with `missing field` (deserialize_with disables serde's implicit Option default)",
    commit="b88631d", document="query Q { me { id best { id } } node { __typename id } }\n",
    vectors={"C16": [resp("w1", "Q", {"me": {"id": 5}, "node": None}, {"me": {"id": "5"}})]})

add("F8", "C12", "fixed", "mutually recursive fragments (A -> B -> A, 3-cycles) were emitted without indirection: rustc E0072",
    commit="fad7108", engine="B-generated")

add("F11", "C20", "fixed", "introspect-schema created (truncated) the --output file before sending the request: every failure emptied an existing schema file",
    commit="7ff877f", engine="C")

# ---- open findings with compile-level or wire-level witnesses
add("K3", "C16", "fixed", "ID under a list type ([ID!]!, [ID], [[ID!]]) got the scalar ID helper in deserialize_with: the module did not type-check (E0308)",
    commit="b2ac6a9", also=["C02"],
    document="query Q { me { tags } }\n",
    vectors={"C16": [resp("w1", "Q", {"me": {"tags": ["a", 1]}}, {"me": {"tags": ["a", "1"]}})]})
add("K4", "C10", "open", "an enum value that is, or normalises to, `Other` collides with the catch-all variant (E0428)",
    hazard="enum-value-other", symptoms=[r"rustc E0428", r"rustc E0308", r"rustc E0004", r"rustc E\d+"], also=["C02"],
    schema="enum Color { RED OTHER }\ntype Query { c: Color }\n", document="query Q { c }\n", options={"normalization": "rust"},
    vectors={"C10": [{"id": "e0", "kind": "enum", "target": "@enum", "input": "OTHER", "expect": {"known": True}, "s": "OTHER"}]})
add("K5", "C02", "open", "two selection paths whose CamelCase concatenation coincides (`me { best {..} }` next to alias `meBest`) define the same struct twice (E0428)",
    hazard="path-name-collision", symptoms=[r"rustc E0428"],
    document="query Q { me { best { id } } meBest: me { id } }\n")
add("K6", "C02", "open", "variable default values of enum / list / input-object type are emitted as ill-typed constructors",
    hazard="non-scalar-default", symptoms=[r"rustc E\d+", r"generation-"],
    document="query Q($c: [Color!] = [RED], $d: Color = GREEN) { x }\n")
add("K7", "C04", "open", "an operation without variables gets the unit struct `Variables`, which serialises to null instead of an empty object (benign on the wire)",
    hazard="zero-variables", symptoms=[r"witness: got null"],
    document="query Q { x }\n",
    vectors={"C04": [{"id": "w1", "kind": "vars", "target": "Q", "input": None, "expect": {"variables": {}}}]})
add("K9", "C02", "open", "an operation whose name is its own snake_case (`query me`) makes the unit struct and the module collide (E0428) in CLI and derive form",
    hazard="snake-case-operation-name", symptoms=[r"rustc E0428"],
    document="query me { x }\n")
out = os.path.join(os.path.dirname(os.path.dirname(os.path.abspath(__file__))), "known_findings.json")
with open(out, "w") as f:
    json.dump({"comment": "written by tools/mk_known.py at authoring time; never written by a check", "findings": F}, f, indent=1)
print("wrote", out, len(F), "entries")
