#!/bin/sh
# Run once in /verif after a fresh restore, offline: builds the drivers, the dependency set of the
# consumer crates and the CLI from /repo's working tree (hooks on), and warms the Miri build.
set -e
cd "$(dirname "$0")"
export CARGO_NET_OFFLINE=true
mkdir -p .build replays evidence
python3 - <<'PY'
import sys
sys.path.insert(0, ".")
from vlib import build
build.build_harness(quiet=False)
print("cli:", build.build_cli())
PY
# Miri warm-up (sysroot + interpreted drivers); a failure here only makes the first C08 / C15 run slower
(
  cd harness
  export RUSTFLAGS="--cfg graphql_client_verif --check-cfg cfg(graphql_client_verif)"
  export CARGO_TARGET_DIR=../.build/target-miri
  cargo +nightly miri run --offline -q -p gendrv -- nop >/dev/null 2>&1 || true
  cargo +nightly miri run --offline -q -p envdrv </dev/null >/dev/null 2>&1 || true
)
# ThreadSanitizer build of the stampede driver (std rebuilt with instrumentation); a failure here is reported by C08 as inconclusive
(
  cd harness
  export RUSTFLAGS="-Zsanitizer=thread --cfg graphql_client_verif --check-cfg cfg(graphql_client_verif)"
  export CARGO_TARGET_DIR=../.build/target-tsan
  cargo +nightly build --offline -q -Zbuild-std --target x86_64-unknown-linux-gnu -p gendrv >/dev/null 2>&1 || true
)
echo "setup done"
