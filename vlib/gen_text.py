"""Document text generator (C05): re-renders a document with arbitrary insignificant separators
(blanks, tabs, commas, CR, LF, CRLF, `#` comments with non-ASCII text) between its tokens. The
token sequence - hence the meaning - is unchanged; the bytes are what QUERY must reproduce."""
import re

TOKEN = re.compile(r'"""(?:.|\n)*?"""|"(?:\\.|[^"\\\n])*"|\.\.\.|[{}()\[\]:!=@|]|\$[A-Za-z_][A-Za-z0-9_]*|[A-Za-z_][A-Za-z0-9_]*|-?\d+(?:\.\d+)?(?:[eE][+-]?\d+)?')

SEPS = [" ", " ", " ", "\n", "\n  ", "\t", "\r\n", "\r", ",", " , ", "  ", "\n\n", " # comment\n", "\n# commentaire é ☃ \"quoted\" { } ...\n", " #\n", "\r\n\t"]


def tokens(text):
    out = TOKEN.findall(text)
    # sanity: the tokens must cover everything but separators
    rest = TOKEN.sub("", text)
    assert not rest.strip(" \n\t\r,"), "untokenised input: %r" % rest.strip()[:40]
    return out


def rerender(text, rng, style=None):
    """style: None (mixed) | 'crlf' | 'lf' | 'tabs' | 'dense'"""
    toks = tokens(text)
    out = []
    seps = SEPS
    if style == "crlf":
        seps = ["\r\n", "\r\n  ", " ", " #c\r\n"]
    elif style == "lf":
        seps = ["\n", " ", "\n    "]
    elif style == "tabs":
        seps = ["\t", "\t\t", "\n\t"]
    elif style == "dense":
        seps = [""]
    for i, t in enumerate(toks):
        out.append(t)
        if i + 1 == len(toks):
            break
        nxt = toks[i + 1]
        need = (t[-1].isalnum() or t[-1] == "_") and (nxt[0].isalnum() or nxt[0] == "_" or nxt[0] == "-")
        need = need or (t[-1] == '"' and nxt[0] == '"')
        need = need or (t == "..." and nxt[0] == "." ) or (t[-1].isdigit() and nxt[0] == ".")
        if style == "dense":
            out.append(" " if need else "")
            continue
        sep = rng.choice(seps)
        if not sep and need:
            sep = " "
        if rng.random() < 0.25 and not need and style is None:
            sep = ""
        out.append(sep)
    # (a leading U+FEFF byte order mark is ignorable in a GraphQL document, and editors on some platforms write one)
    head = rng.choice(["", "", "\n", "# leading comment é\n", "\r\n", "  ", "\ufeff", "\ufeff\n"]) if style in (None, "crlf") else ""
    tail = rng.choice(["", "\n", "\n\n", "\r\n", " # trailing comment", "\t"]) if style in (None, "crlf") else ""
    return head + "".join(out) + tail
