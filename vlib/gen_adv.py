"""Adversarial (schema, query) texts for C17: cyclic, degenerate, deeply nested and broken inputs."""
import json

from .model import render_json, Schema, T, NN, L


def cyc_schema():
    return """interface Node { id: ID next: Node kids: [Node!] }
type A implements Node { id: ID next: Node kids: [Node!] a: A b: B self: A! }
type B implements Node { id: ID next: Node kids: [Node!] a: A u: U }
type C { c: C cs: [C] u: U n: Node }
union U = A | B
union One = C
interface Lonely { x: Int }
union SelfU = SelfM
type SelfM { u: SelfU s: SelfM }
input RI { me: RI list: [RI!] other: RJ }
input RJ { back: RI }
input NN1 { must: NN2! }
input NN2 { must: NN1! }
input Own { own: Own! }
input OO @oneOf { a: OO b: Int c: [OO!] }
type Query { node: Node a: A b: B c: C u: U one: One lonely: Lonely selfu: SelfU x: Int deep: Deep }
input Wrap { r: RI n: NN1 o: Own oo: OO list: [Wrap2!] }
input Wrap2 { inner: RJ deep: Wrap3 }
input Wrap3 { loop: Wrap3 other: [RI] }
type Mutation { m(i: RI, n: NN1, o: Own, oo: OO, w: Wrap, w2: Wrap2): Int }
type Subscription { s: Node }
type Deep { d: Deep v: Int ll: [[[[[[[[Int]]]]]]]] }
"""


def spread_cycles():
    """(label, document) - cycles of length 1..6 on object / interface / union, with and without __typename,
    direct and through fields"""
    out = []
    targets = {"object": ("A", "a", "a"), "interface": ("Node", "node", "next"), "union": ("U", "u", None)}
    for kind, (tname, root, via) in targets.items():
        for n in range(1, 7):
            for with_tn in (False, True):
                for through_field in (False, True):
                    if through_field and via is None:
                        # unions have no fields: go through a member's field typed with the union
                        if kind != "union":
                            continue
                    frs = []
                    for i in range(n):
                        nxt = "F%d" % ((i + 1) % n)
                        tn = "__typename " if with_tn else ""
                        if through_field:
                            if kind == "union":
                                body = "%s... on B { u { %s...%s } }" % (tn, tn, nxt)
                            else:
                                body = "%s%s { %s...%s }" % (tn, via, tn, nxt)
                        else:
                            body = "%s...%s" % (tn, nxt)
                        frs.append("fragment F%d on %s { %s }" % (i, tname, body))
                    tn = "__typename " if with_tn else ""
                    doc = "query Q { %s { %s...F0 } }\n%s\n" % (root, tn, "\n".join(frs))
                    out.append(("spread-cycle kind=%s len=%d typename=%s via-field=%s" % (kind, n, with_tn, through_field), doc))
    # a tail of fragments that are not themselves on the cycle, leading into a cycle of length 1..4
    for n in range(1, 5):
        for tail in (1, 2):
            for with_tn in (False, True):
                tn = "__typename " if with_tn else ""
                frs = []
                for i in range(tail):
                    nxt = "T%d" % (i + 1) if i + 1 < tail else "F0"
                    frs.append("fragment T%d on A { id a { ...%s } }" % (i, nxt))
                for i in range(n):
                    frs.append("fragment F%d on A { id b { a { ...F%d } } }" % (i, (i + 1) % n))
                out.append(("spread-cycle tail=%d into cycle len=%d" % (tail, n), "query Q { a { ...T0 } }\n%s\n" % "\n".join(frs)))
                frs2 = ["fragment T0 on Node { %s...F0 }" % tn] + ["fragment F%d on Node { %snext { %s...F%d } }" % (i, tn, tn, (i + 1) % n) for i in range(n)]
                out.append(("spread-cycle interface tail into cycle len=%d typename=%s" % (n, with_tn), "query Q { node { %s...T0 } }\n%s\n" % (tn, "\n".join(frs2))))
    # cycles mixing types: A -> Node -> A
    out.append(("spread-cycle mixed", "query Q { a { ...X } }\nfragment X on A { ...Y }\nfragment Y on Node { __typename ... on A { ...X } }\n"))
    out.append(("spread-cycle mixed-no-typename", "query Q { a { ...X } }\nfragment X on A { ...Y }\nfragment Y on Node { ... on A { ...X } }\n"))
    out.append(("spread-cycle unused-fragments", "query Q { x }\nfragment X on Node { ...Y }\nfragment Y on Node { ...X }\n"))
    out.append(("spread-cycle self-in-op", "query Q { node { ...X } }\nfragment X on Node { ...X }\n"))
    out.append(("inline-self", "query Q { node { __typename ... on Node { __typename ... on Node { id } } } }\n"))
    # cycles whose every link is a spread sitting directly under an inline fragment (`... on A { ...G }`): no plain spread
    # anywhere on the cycle, so only the walk through inline fragments can stop it (C17-r10m1)
    for n in range(1, 5):
        for with_tn in (False, True):
            tn = "__typename " if with_tn else ""
            # interface: through a field typed with the interface
            frs = ["fragment F%d on A { id next { %s... on A { ...F%d } } }" % (i, tn, (i + 1) % n) for i in range(n)]
            out.append(("spread-cycle all-links-in-inline-fragments interface len=%d typename=%s" % (n, with_tn),
                        "query Q { node { %s...T } }\nfragment T on Node { %sid ... on A { ...F0 } }\n%s\n" % (tn, tn, "\n".join(frs))))
            # union
            frs = ["fragment F%d on B { id u { %s... on B { ...F%d } } }" % (i, tn, (i + 1) % n) for i in range(n)]
            out.append(("spread-cycle all-links-in-inline-fragments union len=%d typename=%s" % (n, with_tn),
                        "query Q { u { %s... on B { ...F0 } } }\n%s\n" % (tn, "\n".join(frs))))
            # no field in between: the inline fragment's condition is the fragment's own type
            frs = ["fragment F%d on Node { %s... on A { ...F%d } }" % (i, tn, (i + 1) % n) for i in range(n)]
            out.append(("spread-cycle all-links-in-inline-fragments direct len=%d typename=%s" % (n, with_tn),
                        "query Q { node { %s... on A { ...F0 } } }\n%s\n" % (tn, "\n".join(frs))))
    return out


ABSTRACT_CYCLE_SCHEMAS = {
    # unions that are (spec-invalid, but parseable) members of themselves or of each other; interfaces implementing
    # themselves or each other; a union holding an interface; the generator only has to terminate cleanly on them
    "union-self-member": "union SU = SU | A\ntype A { x: Int su: SU }\ntype B { y: Int }\ntype Query { su: SU a: A }\n",
    "union-only-self": "union SU = SU\ntype A { x: Int }\ntype Query { su: SU a: A }\n",
    "unions-mutual": "union SU = P | A\nunion P = SU | B\ntype A { x: Int su: SU }\ntype B { y: Int }\ntype Query { su: SU p: P a: A }\n",
    "unions-three-cycle": "union SU = P | A\nunion P = R | B\nunion R = SU\ntype A { x: Int su: SU }\ntype B { y: Int }\ntype Query { su: SU p: P a: A }\n",
    "union-with-interface-member": "union SU = I | A\ninterface I { x: Int }\ntype A implements I { x: Int su: SU }\ntype B implements I { x: Int y: Int }\ntype Query { su: SU a: A }\n",
    "interface-implements-itself": "interface SU implements SU { x: Int }\ntype A implements SU { x: Int su: SU }\ntype B { y: Int }\ntype Query { su: SU a: A }\n",
    "interfaces-mutual": "interface SU implements P { x: Int }\ninterface P implements SU { x: Int }\ntype A implements SU & P { x: Int su: SU }\ntype B { y: Int }\ntype Query { su: SU p: P a: A }\n",
    "object-implements-itself": "type A implements A { x: Int su: SU }\nunion SU = A\ntype B { y: Int }\ntype Query { su: SU a: A }\n",
    "object-implements-union": "type A implements SU { x: Int su: SU }\nunion SU = A | B\ntype B { y: Int }\ntype Query { su: SU a: A }\n",
}

ABSTRACT_CYCLE_QUERIES = [
    ("typename-only", "query Q { su { __typename } }\n"),
    ("inline-on-member", "query Q { su { __typename ... on A { x } } }\n"),
    ("inline-on-self", "query Q { su { __typename ... on SU { __typename } } }\n"),
    ("inline-on-non-member", "query Q { su { __typename ... on B { y } } }\n"),
    ("spread-on-member", "query Q { su { __typename ...FA } }\nfragment FA on A { x }\n"),
    ("spread-on-self", "query Q { su { ...FS } }\nfragment FS on SU { __typename ... on A { x } }\n"),
    ("self-inside-member", "query Q { a { ... on SU { __typename } x } }\n"),
    ("member-inside-self-inside-member", "query Q { a { su { __typename ... on A { su { __typename ... on SU { __typename ... on A { x } } } } } } }\n"),
    ("no-typename", "query Q { su { ... on A { x } } }\n"),
    ("recursive-fragment", "query Q { su { ...FS } }\nfragment FS on SU { __typename ... on A { su { ...FS } } }\n"),
]


def abstract_cycles():
    """(label, schema text, document)"""
    # every schema also has an unrelated interface `Other` (implemented by C only) and a root field of that type, so that
    # INTERFACE-typed conditions that can never apply meet the cycles from both sides
    extra = "interface Other { z: Int }\ntype C implements Other { z: Int }\n"
    queries = ABSTRACT_CYCLE_QUERIES + [
        ("unrelated-interface-condition-under-object", "query Q { a { ... on Other { z } x } }\n"),
        ("unrelated-interface-condition-under-self", "query Q { su { __typename ... on Other { z } } }\n"),
        ("self-condition-under-unrelated-interface", "query Q { other { __typename ... on SU { __typename } } }\n"),
        ("self-spread-under-unrelated-interface", "query Q { other { __typename ...FSU } }\nfragment FSU on SU { __typename }\n"),
    ]
    return [("%s / %s" % (sl, ql), st.replace("type Query {", "type Query { other: Other") + extra, qt) for sl, st in ABSTRACT_CYCLE_SCHEMAS.items() for ql, qt in queries]


def nesting(depths=(8, 16, 32, 64, 200, 3000)):
    out = []
    for d in depths:
        out.append(("selection-nesting depth=%d" % d, "query Q { deep " + "{ d " * d + "{ v }" + " }" * d + " }\n"))
        out.append(("selection-nesting-interface depth=%d" % d, "query Q { node " + "{ __typename next " * d + "{ __typename id }" + " }" * d + " }\n"))
        out.append(("inline-nesting depth=%d" % d, "query Q { a " + "{ ... on A " * d + "{ id }" + " }" * d + " }\n"))
        out.append(("variable-list-nesting depth=%d" % d, "query Q($v: " + "[" * d + "Int" + "]" * d + ") { x }\n"))
        out.append(("variable-default-nesting depth=%d" % d, "query Q($v: [Int] = " + "[" * d + "1" + "]" * d + ") { x }\n"))
    return out


def input_cycles():
    return [("input-cycle nullable", "mutation M($i: RI) { m(i: $i) }\n"),
            ("input-cycle non-null pair", "mutation M($n: NN1!) { m(n: $n) }\n"),
            ("input-cycle non-null self", "mutation M($o: Own) { m(o: $o) }\n"),
            ("input-cycle oneOf", "mutation M($oo: OO, $l: [OO!]!) { m(oo: $oo) }\n"),
            ("input-cycle all", "mutation M($i: RI!, $n: NN1, $o: Own!, $oo: OO) { m(i: $i, n: $n, o: $o, oo: $oo) }\n"),
            # cycles that do not pass through the variable's own type
            ("input-cycle behind a wrapper", "mutation M($w: Wrap) { m(w: $w) }\n"),
            ("input-cycle behind two wrappers", "mutation M($w2: Wrap2!) { m(w2: $w2) }\n"),
            ("input-cycle behind a list wrapper", "mutation M($ws: [Wrap!]) { m }\n"),
            # object-literal default values on (and leading into) the cycles: the literal is finite, the schema is not
            ("default {} on non-null self cycle", "mutation M($o: Own = {}) { m(o: $o) }\n"),
            ("default {own: {}} on non-null self cycle", "mutation M($o: Own = {own: {}}) { m(o: $o) }\n"),
            ("default {} on non-null pair", "mutation M($n: NN1 = {}) { m(n: $n) }\n"),
            ("default {must: {}} on non-null pair", "mutation M($n: NN1! = {must: {}}) { m(n: $n) }\n"),
            ("default {} on nullable cycle", "mutation M($i: RI = {}) { m(i: $i) }\n"),
            ("default nested on nullable cycle", "mutation M($i: RI = {me: {me: {list: [{}, {other: {back: {}}}]}}}) { m(i: $i) }\n"),
            ("default {} on a wrapper of every cycle", "mutation M($w: Wrap = {}) { m(w: $w) }\n"),
            ("default {n: {}, o: {}} on a wrapper", "mutation M($w: Wrap = {n: {}, o: {}, r: {}, list: [{}]}) { m(w: $w) }\n"),
            ("default on oneOf cycle", "mutation M($oo: OO = {a: {a: {b: 1}}}) { m(oo: $oo) }\n"),
            ("default list of objects", "mutation M($ws: [Wrap!] = [{}, {n: {}}]) { m }\n"),
            # a single value where a list is declared (GraphQL coerces it to a one-element list; the generator may refuse it, it
            # must not chase it)
            ("single scalar default for a list variable", "query Q($ids: [Int!] = 1) { x }\n"),
            ("single scalar default for a nested list variable", "query Q($ids: [[Int]] = 1) { x }\n"),
            ("single object default for a list variable", "mutation M($ws: [Wrap!] = {}) { m }\n"),
            ("single object for a list member inside a default", "mutation M($w: Wrap = {list: {}}) { m(w: $w) }\n"),
            ("single object for a list member on a cycle inside a default", "mutation M($i: RI = {list: {me: {}}}) { m(i: $i) }\n"),
            ("null default for a list variable", "query Q($ids: [Int!] = null) { x }\n"),
            ("enum-like bare word default for a list variable", "query Q($ids: [Int!] = RED) { x }\n")]


def degenerate():
    return [("interface-without-implementors", "query Q { lonely { __typename x } }\n"),
            ("interface-without-implementors inline", "query Q { lonely { __typename ... on A { id } } }\n"),
            ("union-of-one", "query Q { one { __typename ... on C { c { c { cs { __typename } } } } } }\n"),
            ("self-referential union member", "query Q { selfu { __typename ... on SelfM { u { __typename ... on SelfM { s { u { __typename } } } } } } }\n"),
            ("recursive fragment through list", "query Q { c { ...R } }\nfragment R on C { cs { ...R } c { ...R } }\n"),
            ("mutual recursion through fields", "query Q { a { ...P } }\nfragment P on A { b { ...S } }\nfragment S on B { a { ...P } }\n"),
            ("three cycle through fields", "query Q { a { ...P } }\nfragment P on A { b { ...S } }\nfragment S on B { u { __typename ... on A { ...T } } }\nfragment T on A { a { ...P } }\n"),
            ("empty document", ""),
            ("only comment", "# nothing\n"),
            ("only fragments", "fragment F on A { id }\n"),
            ("duplicate operation names", "query Q { x }\nquery Q { x }\n"),
            ("duplicate fragment names", "query Q { a { ...F } }\nfragment F on A { id }\nfragment F on A { a { id } }\n"),
            ("subscription", "subscription S { s { __typename id } }\n"),
            ("directives", "query Q($b: Boolean!) { x @skip(if: $b) a @include(if: $b) { id } }\n"),
            ("unknown variable type", "query Q($v: Nope) { x }\n"),
            ("variable of output type", "query Q($v: A) { x }\n"),
            ("null default", "query Q($v: Int = null) { x }\n"),
            ("variable default variable", "query Q($v: Int = $w) { x }\n"),
            ("object default on scalar", "query Q($v: Int = {a: 1}) { x }\n"),
            ("enum default on input", "query Q($v: RI = RED) { x }\n"),
            ("huge int default", "query Q($v: Int = 99999999999999999999999999) { x }\n"),
            ("typename everywhere", "query Q { __typename a { __typename } u { __typename } }\n"),
            ]


def schema_variants():
    """(label, ext, schema text) - degenerate and broken schemas, used with a trivial query"""
    out = []
    out.append(("no-query-type", "graphql", "type A { x: Int }\n"))
    out.append(("empty-schema", "graphql", ""))
    out.append(("schema-block-unknown-root", "graphql", "schema { query: Nope }\ntype Query { x: Int }\n"))
    out.append(("schema-block-root-is-interface", "graphql", "schema { query: I }\ninterface I { x: Int }\ntype Query { x: Int }\n"))
    out.append(("unknown-field-type", "graphql", "type Query { x: Nope }\n"))
    out.append(("implements-unknown", "graphql", "type Query implements Nope { x: Int }\n"))
    out.append(("union-unknown-member", "graphql", "union U = Nope\ntype Query { x: Int u: U }\n"))
    out.append(("extend-unknown", "graphql", "type Query { x: Int }\nextend type Nope { y: Int }\n"))
    out.append(("duplicate-types", "graphql", "type Query { x: Int }\ntype Query { y: Int }\n"))
    out.append(("double-bang-attempt", "graphql", "type Query { x: Int!! }\n"))
    out.append(("deep-list-type", "graphql", "type Query { x: " + "[" * 64 + "Int" + "]" * 64 + " }\n"))
    out.append(("very-deep-list-type", "graphql", "type Query { x: " + "[" * 3000 + "Int" + "]" * 3000 + " }\n"))
    out.append(("json-empty-object", "json", "{}"))
    out.append(("json-null-schema", "json", '{"__schema": null}'))
    out.append(("json-data-null", "json", '{"data": null}'))
    out.append(("json-types-null", "json", '{"__schema": {"queryType": {"name": "Query"}, "types": null}}'))
    out.append(("json-types-with-null-entry", "json", '{"__schema": {"queryType": {"name": "Query"}, "types": [null, {"kind": "OBJECT", "name": "Query", "fields": [{"name": "x", "args": [], "type": {"kind": "SCALAR", "name": "Int", "ofType": null}, "isDeprecated": false}], "interfaces": []}]}}'))
    out.append(("json-object-without-fields", "json", '{"__schema": {"queryType": {"name": "Query"}, "types": [{"kind": "OBJECT", "name": "Query", "fields": null}]}}'))
    out.append(("json-field-type-unknown", "json", '{"__schema": {"queryType": {"name": "Query"}, "types": [{"kind": "OBJECT", "name": "Query", "fields": [{"name": "x", "args": [], "type": {"kind": "OBJECT", "name": "Nope", "ofType": null}}], "interfaces": []}]}}'))
    out.append(("json-list-without-oftype", "json", '{"__schema": {"queryType": {"name": "Query"}, "types": [{"kind": "OBJECT", "name": "Query", "fields": [{"name": "x", "args": [], "type": {"kind": "LIST", "name": null, "ofType": null}}], "interfaces": []}]}}'))
    deep = {"kind": "SCALAR", "name": "Int", "ofType": None}
    for _ in range(100):
        deep = {"kind": "LIST", "name": None, "ofType": deep}
    out.append(("json-deep-typeref", "json", json.dumps({"__schema": {"queryType": {"name": "Query"}, "types": [{"kind": "OBJECT", "name": "Query", "fields": [{"name": "x", "args": [], "type": deep}], "interfaces": []}]}})))
    out.append(("json-not-json", "json", "{ this is not json"))
    out.append(("json-array", "json", "[1,2,3]"))
    out.append(("json-unknown-kind", "json", '{"__schema": {"queryType": {"name": "Query"}, "types": [{"kind": "WEIRD", "name": "Query"}]}}'))
    out.append(("json-root-missing", "json", '{"__schema": {"types": []}}'))
    out.append(("unsupported-extension", "txt", "type Query { x: Int }\n"))
    out.append(("no-extension", "", "type Query { x: Int }\n"))
    return out


def mutations_of(text, rng, n_trunc, n_flip):
    out = []
    if not text:
        return out
    for _ in range(n_trunc):
        k = rng.randint(0, len(text))
        out.append(("truncated@%d" % k, text[:k]))
    chars = "{}()[]!$:@\"#.,|&= \n\\x0é"
    for _ in range(n_flip):
        k = rng.randint(0, len(text) - 1)
        c = rng.choice(chars)
        out.append(("flip@%d->%r" % (k, c), text[:k] + c + text[k + 1:]))
    for _ in range(max(1, n_flip // 4)):
        k = rng.randint(0, len(text))
        c = rng.choice("{}()[]\"")
        out.append(("insert@%d+%r" % (k, c), text[:k] + c + text[k:]))
    return out
