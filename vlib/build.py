"""Builds the harness (drivers + dependency set of consumer crates) and the CLI from /repo's
current working tree with the verification cfg on. Cargo's own fingerprinting makes this a no-op
when /repo is unchanged and a rebuild when any source under /repo was edited."""
import json
import os
import subprocess
import sys
import time

VERIF = os.path.dirname(os.path.dirname(os.path.abspath(__file__)))
REPO = os.environ.get("VERIF_REPO", "/repo")
BUILD = os.path.join(VERIF, ".build")
HARNESS = os.path.join(VERIF, "harness")
if REPO != "/repo":
    # authoring aid (tools/seeded.py cross-evaluation): a second tree is checked through a copy of the harness whose
    # path dependencies point at it, with build directories of its own. Registered checks always use /repo.
    import hashlib as _h
    import shutil as _sh
    BUILD = os.path.join(BUILD, "alt", _h.sha1(REPO.encode()).hexdigest()[:10])
    _alt = os.path.join(BUILD, "harness")
    os.makedirs(BUILD, exist_ok=True)
    for _base, _dirs, _files in os.walk(HARNESS):
        _rel = os.path.relpath(_base, HARNESS)
        os.makedirs(os.path.join(_alt, _rel), exist_ok=True)
        for _f in _files:
            _t = open(os.path.join(_base, _f)).read()
            if _f.endswith((".toml", ".rs")):
                _t = _t.replace('"/repo/', '"' + REPO.rstrip("/") + "/")
            _p = os.path.join(_alt, _rel, _f)
            if not os.path.exists(_p) or open(_p).read() != _t:     # keep mtimes: cargo must not rebuild for nothing
                open(_p, "w").write(_t)
    HARNESS = _alt
TARGET = os.path.join(BUILD, "target")
CLI_TARGET = os.path.join(BUILD, "target-cli")
RUSTFLAGS = "--cfg graphql_client_verif --check-cfg cfg(graphql_client_verif)"


def cargo_env(extra=None):
    env = dict(os.environ)
    for k in list(env):
        if k.lower() in ("http_proxy", "https_proxy", "all_proxy", "no_proxy"):
            del env[k]
    env.update({"CARGO_NET_OFFLINE": "true", "RUST_BACKTRACE": "0", "RUSTFLAGS": RUSTFLAGS, "CARGO_TERM_COLOR": "never"})
    if extra:
        env.update(extra)
    return env


_artifacts = None


def build_harness(quiet=True):
    """cargo build of the harness workspace; returns {crate_name: [filenames]} of produced artifacts"""
    global _artifacts
    if _artifacts is not None:
        return _artifacts
    os.makedirs(BUILD, exist_ok=True)
    lock = os.path.join(HARNESS, "Cargo.lock")
    if not os.path.exists(lock):
        import shutil
        shutil.copy(os.path.join(REPO, "Cargo.lock"), lock)
    t0 = time.time()
    p = subprocess.run(["cargo", "build", "--offline", "--message-format=json"], cwd=HARNESS,
                       env=cargo_env({"CARGO_TARGET_DIR": TARGET}), capture_output=True, text=True)
    arts = {}
    errors = []
    for line in p.stdout.splitlines():
        try:
            d = json.loads(line)
        except ValueError:
            continue
        if d.get("reason") == "compiler-artifact":
            arts.setdefault(d["target"]["name"], []).extend(d["filenames"])
            if d.get("executable"):
                arts.setdefault("bin:" + d["target"]["name"], []).append(d["executable"])
        elif d.get("reason") == "compiler-message" and d["message"]["level"] == "error":
            errors.append(d["message"].get("rendered") or d["message"]["message"])
    if p.returncode != 0:
        sys.stderr.write("harness build failed:\n" + "\n".join(errors[:10]) + "\n" + p.stderr[-3000:] + "\n")
        raise BuildError("harness build failed (the working tree does not compile with hooks on?)", errors)
    if not quiet:
        print("harness build %.1fs" % (time.time() - t0))
    _artifacts = arts
    return arts


class BuildError(Exception):
    def __init__(self, msg, errors=()):
        Exception.__init__(self, msg)
        self.errors = list(errors)


def bin_path(name):
    arts = build_harness()
    return arts["bin:" + name][-1]


def rlib(name):
    arts = build_harness()
    for f in arts[name]:
        if f.endswith(".rlib"):
            return f
    raise KeyError(name)


def deps_dir():
    return os.path.join(TARGET, "debug", "deps")


_cli = None


def build_cli():
    """the graphql-client binary from the working tree (own target dir: different feature set of deps)"""
    global _cli
    if _cli:
        return _cli
    p = subprocess.run(["cargo", "build", "--offline", "-p", "graphql_client_cli", "--message-format=json"], cwd=REPO,
                       env=cargo_env({"CARGO_TARGET_DIR": CLI_TARGET, "CARGO_PROFILE_DEV_DEBUG": "false", "CARGO_PROFILE_DEV_INCREMENTAL": "false"}),
                       capture_output=True, text=True)
    exe = None
    for line in p.stdout.splitlines():
        try:
            d = json.loads(line)
        except ValueError:
            continue
        if d.get("reason") == "compiler-artifact" and d.get("executable") and d["target"]["name"] == "graphql-client":
            exe = d["executable"]
    if p.returncode != 0 or not exe:
        sys.stderr.write(p.stderr[-3000:])
        raise BuildError("CLI build failed")
    _cli = exe
    return exe
