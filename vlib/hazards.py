"""Hazard corpus: for each catalogued finding a committed minimal witness (and, where useful, a
few generated instances of the same hazard). A failing case here is a KNOWN-FINDING only while
the entry in known_findings.json is open and the symptom matches; `fixed` entries stay in as
regression cases and suppress nothing."""
from .core import load_known
from . import cases as C
from .model import Schema


def cases_for(run, prop):
    out = []
    for k in load_known():
        if k["property"] != prop and prop not in k.get("also", []):
            continue
        w = k.get("witness")
        if not w or w.get("engine", "B") != "B":
            continue
        out.append(witness_case(k, prop))
    return [c for c in out if c is not None]


def witness_case(k, prop):
    w = k["witness"]
    corpus = ("witness:%s" % k["id"]) if k["status"] == "open" else "clean"
    opts = dict(C.DEFAULT_OPTIONS)
    opts.update(w.get("options") or {})
    case = {"id": "w_%s" % k["id"].lower(), "corpus": corpus, "finding": k["id"], "features": ["witness"],
            "schema_model": w.get("schema_model"), "schema_format": w.get("schema_format", "sdl"), "schema_text": w["schema"],
            "schema_ext": w.get("schema_ext", "graphql"), "doc_model": w.get("doc_model"), "doc_text": w["document"],
            "options": opts, "support": w.get("support") or {"scalars": {"Date": "String"}}, "vectors": w.get("vectors", {}).get(prop, [])}
    if w.get("form"):
        case["form"] = w["form"]
    return case
