"""Loopback mock GraphQL endpoint for C20 (std library only): one scripted behaviour per
server instance, every received request logged (method, path, headers in arrival order, body)."""
import socket
import threading


class Mock:
    def __init__(self, behaviour, body=b"", status=200, content_type="application/json"):
        self.behaviour = behaviour      # ok | chunked | chunked-no-terminator | close-before-headers | close-mid-body | close-after-body-short-of-length
        self.body = body
        self.status = status
        self.content_type = content_type
        self.log = []
        self.sock = socket.socket(socket.AF_INET, socket.SOCK_STREAM)
        self.sock.setsockopt(socket.SOL_SOCKET, socket.SO_REUSEADDR, 1)
        self.sock.bind(("127.0.0.1", 0))
        self.sock.listen(16)
        self.port = self.sock.getsockname()[1]
        self.stop = False
        self.thread = threading.Thread(target=self.serve, daemon=True)
        self.thread.start()

    @property
    def url(self):
        return "http://127.0.0.1:%d/graphql" % self.port

    def close(self):
        self.stop = True
        try:
            self.sock.close()
        except OSError:
            pass

    def serve(self):
        while not self.stop:
            try:
                conn, _ = self.sock.accept()
            except OSError:
                return
            threading.Thread(target=self.handle, args=(conn,), daemon=True).start()

    def handle(self, conn):
        try:
            conn.settimeout(10)
            data = b""
            while b"\r\n\r\n" not in data:
                chunk = conn.recv(65536)
                if not chunk:
                    break
                data += chunk
            if b"\r\n\r\n" not in data:
                self.log.append({"incomplete": True, "raw": data.decode("latin1")})
                conn.close()
                return
            head, rest = data.split(b"\r\n\r\n", 1)
            lines = head.decode("latin1").split("\r\n")
            method, path, _ = lines[0].split(" ", 2)
            headers = []
            for l in lines[1:]:
                k, _, v = l.partition(":")
                headers.append([k, v.strip()])
            clen = 0
            for k, v in headers:
                if k.lower() == "content-length":
                    clen = int(v)
            while len(rest) < clen:
                chunk = conn.recv(65536)
                if not chunk:
                    break
                rest += chunk
            self.log.append({"method": method, "path": path, "headers": headers, "body": rest.decode("utf-8", "replace")})
            b = self.behaviour
            if b == "close-before-headers":
                conn.close()
                return
            reason = {200: "OK", 201: "Created", 204: "No Content", 400: "Bad Request", 401: "Unauthorized", 403: "Forbidden", 404: "Not Found", 500: "Internal Server Error", 502: "Bad Gateway", 503: "Service Unavailable"}.get(self.status, "X")
            if b == "chunked":
                conn.sendall(("HTTP/1.1 %d %s\r\nContent-Type: %s\r\nTransfer-Encoding: chunked\r\nConnection: close\r\n\r\n" % (self.status, reason, self.content_type)).encode())
                body = self.body
                step = max(1, len(body) // 5)
                for i in range(0, len(body), step):
                    part = body[i:i + step]
                    conn.sendall(("%x\r\n" % len(part)).encode() + part + b"\r\n")
                conn.sendall(b"0\r\n\r\n")
            elif b == "chunked-no-terminator":
                # every byte of the body arrives, but the stream ends without the terminating zero-length chunk
                conn.sendall(("HTTP/1.1 %d %s\r\nContent-Type: %s\r\nTransfer-Encoding: chunked\r\nConnection: close\r\n\r\n" % (self.status, reason, self.content_type)).encode())
                conn.sendall(("%x\r\n" % len(self.body)).encode() + self.body + b"\r\n")
            elif b == "close-after-body-short-of-length":
                # the whole (parseable) body arrives, but Content-Length announced more: the message is incomplete
                conn.sendall(("HTTP/1.1 %d %s\r\nContent-Type: %s\r\nContent-Length: %d\r\nConnection: close\r\n\r\n" % (self.status, reason, self.content_type, len(self.body) + 1000)).encode())
                conn.sendall(self.body)
            elif b == "close-mid-body":
                conn.sendall(("HTTP/1.1 %d %s\r\nContent-Type: %s\r\nContent-Length: %d\r\nConnection: close\r\n\r\n" % (self.status, reason, self.content_type, len(self.body) + 1000)).encode())
                conn.sendall(self.body[: max(1, len(self.body) // 2)])
            else:
                conn.sendall(("HTTP/1.1 %d %s\r\nContent-Type: %s\r\nContent-Length: %d\r\nConnection: close\r\n\r\n" % (self.status, reason, self.content_type, len(self.body))).encode())
                conn.sendall(self.body)
            try:
                conn.shutdown(socket.SHUT_WR)
            except OSError:
                pass
            conn.close()
        except Exception as e:   # the log is the observation; a handler error must be visible in it
            self.log.append({"handler_error": repr(e)})
            try:
                conn.close()
            except OSError:
                pass


def refused_port():
    """a port nobody listens on"""
    s = socket.socket(socket.AF_INET, socket.SOCK_STREAM)
    s.bind(("127.0.0.1", 0))
    port = s.getsockname()[1]
    s.close()
    return port
