"""Schema / document model shared by all generators and oracles.

Independent of the code under test: no parser, naming function or serde attribute of
graphql-client is used here. Everything is plain JSON-serialisable data so that a case
(schema model + document model + vectors) can be written to a replay file and re-run.

type expression:  ["named", N] | ["list", T] | ["nn", T]
schema dict:
  {"types": {name: {...}}, "order": [names], "roots": {"query": N, "mutation": N|None, "subscription": N|None},
   "schema_block": bool}
  type dicts:
    {"kind": "scalar"}
    {"kind": "enum", "values": [names]}
    {"kind": "interface", "fields": [FIELD]}
    {"kind": "object", "fields": [FIELD], "implements": [names]}
    {"kind": "union", "members": [names]}
    {"kind": "input", "fields": [[name, T]], "one_of": bool}
  FIELD = {"name", "type", "args": [[name, T]], "deprecated": None | {"reason": str|None}}
document dict:
  {"operations": [{"kind", "name", "vars": [{"name","type","default": str|None}], "sel": [ITEM]}],
   "fragments": [{"name", "on", "sel": [ITEM]}]}
  ITEM = ["typename"] | ["field", alias|None, name, args_text|None, sub|None] | ["inline", on, sub] | ["spread", name]
"""
import json

BUILTIN_SCALARS = ["Int", "Float", "String", "Boolean", "ID"]


def T(n):
    return ["named", n]


def L(t):
    return ["list", t]


def NN(t):
    return ["nn", t]


def render_type(t):
    if t[0] == "named":
        return t[1]
    if t[0] == "list":
        return "[" + render_type(t[1]) + "]"
    return render_type(t[1]) + "!"


def base(t):
    while t[0] != "named":
        t = t[1]
    return t[1]


def has_list(t):
    while t[0] != "named":
        if t[0] == "list":
            return True
        t = t[1]
    return False


def is_nn(t):
    return t[0] == "nn"


def strip_nn(t):
    return t[1] if t[0] == "nn" else t


def list_depth(t):
    d = 0
    while t[0] != "named":
        if t[0] == "list":
            d += 1
        t = t[1]
    return d


class Schema:
    def __init__(self, d=None):
        self.d = d or {"types": {}, "order": [], "roots": {"query": "Query", "mutation": None, "subscription": None},
                       "schema_block": False}

    # -- construction
    def add(self, name, td):
        self.d["types"][name] = td
        self.d["order"].append(name)

    @property
    def types(self):
        return self.d["types"]

    @property
    def order(self):
        return self.d["order"]

    @property
    def roots(self):
        return self.d["roots"]

    # -- queries
    def kind(self, n):
        if n in self.types:
            return self.types[n]["kind"]
        if n in BUILTIN_SCALARS:
            return "scalar"
        raise KeyError(n)

    def is_leaf(self, n):
        return self.kind(n) in ("scalar", "enum")

    def is_composite(self, n):
        return self.kind(n) in ("object", "interface", "union")

    def fields(self, n):
        return self.types[n].get("fields", [])

    def field(self, n, fname):
        for f in self.fields(n):
            if f["name"] == fname:
                return f
        return None

    def objects(self):
        return [n for n in self.order if self.types[n]["kind"] == "object"]

    def of_kind(self, k):
        return [n for n in self.order if self.types[n]["kind"] == k]

    def possible(self, n):
        k = self.kind(n)
        if k == "object":
            return [n]
        if k == "interface":
            return [o for o in self.objects() if n in self.types[o].get("implements", [])]
        if k == "union":
            return list(self.types[n]["members"])
        return []

    def applies(self, cond, runtime_obj):
        """does a type condition `cond` apply to runtime object type R?"""
        if cond == runtime_obj:
            return True
        k = self.kind(cond)
        if k == "interface":
            return cond in self.types[runtime_obj].get("implements", [])
        if k == "union":
            return runtime_obj in self.types[cond]["members"]
        return False

    def can_apply(self, cond, parent):
        """spec 5.5.2.3: possible types of cond and parent intersect"""
        return bool(set(self.possible(cond)) & set(self.possible(parent)))


# ------------------------------------------------------------------------------------------------
# SDL rendering

def _descr(rng, style):
    if rng is None or rng.random() > 0.25:
        return ""
    if style == "block":
        return '"""\n  Description with "quotes" and unicode é\n  """\n'
    return '"a description"\n'


def _esc(s):
    return json.dumps(s, ensure_ascii=False)


def _dep_sdl(dep, rng=None):
    if dep is None:
        return ""
    if dep.get("reason") is None:
        return " @deprecated"
    r = dep["reason"]
    if dep.get("block") and '"""' not in r and "\\" not in r and not r.startswith((" ", "\n")) and not r.endswith((" ", "\n", '"')) and "\n" not in r:
        return ' @deprecated(reason: """%s""")' % r
    return " @deprecated(reason: %s)" % _esc(r)


def _field_sdl(f, rng=None, tags=False):
    args = ""
    if f.get("args"):
        args = "(" + ", ".join("%s: %s" % (a, render_type(t)) for a, t in f["args"]) + ")"
    dirs = _dep_sdl(f.get("deprecated"))
    if tags and rng is not None:
        # custom directives before / after / around `@deprecated`, and on fields that are not deprecated
        r = rng.random()
        if r < 0.2:
            dirs = ' @tag(name: "x")' + dirs
        elif r < 0.35:
            dirs = dirs + ' @tag(name: "deprecated")'
        elif r < 0.45:
            dirs = ' @tag(name: "a") @owner' + dirs + ' @tag(name: "b")'
    return "%s%s: %s%s" % (f["name"], args, render_type(f["type"]), dirs)


def _type_dirs(rng, tags, own=""):
    """custom directives on a type definition, before / after / around the directive the generator looks at (`own`)"""
    if not tags or rng is None:
        return own
    r = rng.random()
    if r < 0.3:
        return ' @tag(name: "t")' + own
    if r < 0.45:
        return own + ' @tag(name: "oneOf")'
    if r < 0.6:
        return ' @tag(name: "a") @owner' + own + ' @tag(name: "b")'
    return own


def render_sdl(schema, rng=None, order=None, extend=False, comments=False, multiline=True, declare_builtins=False, tags=False):
    """order: list of names (default schema.order). extend: split a random subset of the
    fields of some object types into `extend type` blocks (needs rng); extend="all": every object type with >= 2
    fields is split and some of its interfaces always arrive with the extension."""
    s = schema
    out = []
    names = list(order) if order is not None else list(s.order)
    sep = "\n  " if multiline else " "
    ext_blocks = []
    if comments:
        out.append("# generated schema - commentaire é\n")
    roots = s.roots
    default_names = roots["query"] == "Query" and roots.get("mutation") in (None, "Mutation") and roots.get("subscription") in (None, "Subscription")
    # an ordinary type that happens to carry a default root name is only not-a-root when the roots are spelt out
    decoy = any(n in s.types and roots.get(k) != n for k, n in (("query", "Query"), ("mutation", "Mutation"), ("subscription", "Subscription")))
    if s.d.get("schema_block") or not default_names or decoy:
        parts = ["query: %s" % roots["query"]]
        if roots.get("mutation"):
            parts.append("mutation: %s" % roots["mutation"])
        if roots.get("subscription"):
            parts.append("subscription: %s" % roots["subscription"])
        out.append("schema {%s%s\n}" % (sep, sep.join(parts)))
    for n in names:
        d = s.types[n]
        k = d["kind"]
        desc = _descr(rng, "block" if comments else "line") if comments else ""
        if k == "scalar":
            out.append(desc + "scalar %s%s" % (n, _type_dirs(rng, tags)))
        elif k == "enum":
            out.append(desc + "enum %s%s {%s%s\n}" % (n, _type_dirs(rng, tags), sep, sep.join(v + _dep_sdl((d.get("deprecated_values") or {}).get(v)) + (' @tag(name: "v")' if (tags and rng is not None and rng.random() < 0.2) else "") for v in d["values"])))
        elif k == "interface":
            out.append(desc + "interface %s%s {%s%s\n}" % (n, _type_dirs(rng, tags), sep, sep.join(_field_sdl(f, rng, tags) for f in d["fields"])))
        elif k == "object":
            fields = list(d["fields"])
            impl = list(d.get("implements", []))
            ext_f = []
            ext_impl = []
            if extend and rng is not None and len(fields) >= 2 and (extend == "all" or rng.random() < 0.5):
                # keep order: the tail goes to the extension, so the field order is unchanged
                cut = rng.randint(1, len(fields) - 1)
                fields, ext_f = fields[:cut], fields[cut:]
                if impl and (extend == "all" or rng.random() < 0.6):
                    # `extend type T implements I { .. }`: some interfaces arrive with the extension
                    k = rng.randint(1, len(impl))
                    impl, ext_impl = impl[: len(impl) - k], impl[len(impl) - k:]
            impl_s = (" implements " + " & ".join(impl)) if impl else ""
            out.append(desc + "type %s%s%s {%s%s\n}" % (n, impl_s, _type_dirs(rng, tags), sep, sep.join(_field_sdl(f, rng, tags) for f in fields)))
            if ext_f:
                # one, two or three `extend type` blocks for the same type (order of fields preserved)
                chunks = [ext_f]
                while len(chunks) < 3 and len(chunks[-1]) >= 2 and rng.random() < 0.5:
                    last = chunks.pop()
                    cut2 = rng.randint(1, len(last) - 1)
                    chunks += [last[:cut2], last[cut2:]]
                for ci, chunk in enumerate(chunks):
                    # interfaces arrive with the FIRST block when there are several (a later block must not undo it)
                    ext_impl_s = (" implements " + " & ".join(ext_impl)) if (ext_impl and ci == 0) else ""
                    ext_blocks.append("extend type %s%s {%s%s\n}" % (n, ext_impl_s, sep, sep.join(_field_sdl(f, rng, tags) for f in chunk)))
        elif k == "union":
            out.append(desc + "union %s%s = %s" % (n, _type_dirs(rng, tags), " | ".join(d["members"])))
        elif k == "input":
            one = _type_dirs(rng, tags, " @oneOf" if d.get("one_of") else "")
            dfl = d.get("defaults") or {}
            out.append(desc + "input %s%s {%s%s\n}" % (n, one, sep, sep.join("%s: %s%s%s" % (f, render_type(t), (" = " + dfl[f]) if f in dfl else "",
                                                                                           ' @tag(name: "f")' if (tags and rng is not None and rng.random() < 0.15) else "") for f, t in d["fields"])))
    # the order of definitions in an SDL document carries no meaning: some extensions go to the end, others anywhere -
    # also in front of the type they extend (schemas concatenated from per-feature files)
    first = 1 if (out and out[0].startswith("#")) else 0
    i = 0
    while i < len(ext_blocks):
        j = i
        while j < len(ext_blocks) and ext_blocks[j].split()[2] == ext_blocks[i].split()[2]:
            j += 1
        group = ext_blocks[i:j]
        if rng is not None and rng.random() < 0.5:
            at = rng.randint(first, len(out))
            out[at:at] = group
        else:
            out += group
        i = j
    if tags and rng is not None:
        out.insert(0, "directive @tag(name: String) repeatable on FIELD_DEFINITION | OBJECT | INTERFACE | UNION | SCALAR | ENUM | ENUM_VALUE | INPUT_OBJECT | INPUT_FIELD_DEFINITION\n\n"
                      "directive @owner on FIELD_DEFINITION | OBJECT | INTERFACE | UNION | SCALAR | ENUM | INPUT_OBJECT")
    if declare_builtins:
        # schema dumps of several servers / tools list the built-in scalars explicitly; that is legal SDL
        out = ["scalar %s" % b for b in (declare_builtins if isinstance(declare_builtins, list) else BUILTIN_SCALARS)] + out
    if any(s.types[n].get("one_of") for n in names if s.types[n]["kind"] == "input"):
        out.insert(0, "directive @oneOf on INPUT_OBJECT")
    return "\n\n".join(out) + "\n"


# ------------------------------------------------------------------------------------------------
# introspection JSON rendering

def _typeref(t, s):
    if t[0] == "nn":
        return {"kind": "NON_NULL", "name": None, "ofType": _typeref(t[1], s)}
    if t[0] == "list":
        return {"kind": "LIST", "name": None, "ofType": _typeref(t[1], s)}
    k = s.kind(t[1])
    return {"kind": {"scalar": "SCALAR", "enum": "ENUM", "object": "OBJECT", "interface": "INTERFACE", "union": "UNION", "input": "INPUT_OBJECT"}[k],
            "name": t[1], "ofType": None}


def _named_ref(n, s):
    return _typeref(T(n), s)


def _field_json(f, s, sparse):
    d = {"name": f["name"], "description": None,
         "args": [{"name": a, "description": None, "type": _typeref(t, s), "defaultValue": None} for a, t in f.get("args", [])],
         "type": _typeref(f["type"], s),
         "isDeprecated": f.get("deprecated") is not None,
         "deprecationReason": (f.get("deprecated") or {}).get("reason")}
    if sparse:
        # optional members absent instead of null
        d.pop("description")
        if d["deprecationReason"] is None:
            d.pop("deprecationReason")
    return d


def _builtin_scalar(n):
    return {"kind": "SCALAR", "name": n, "description": None, "fields": None, "inputFields": None, "interfaces": None,
            "enumValues": None, "possibleTypes": None}


def _introspection_meta_types(s):
    """a few of the `__` meta types a real server lists, enough to exercise the front-end"""
    def obj(name, fields):
        return {"kind": "OBJECT", "name": name, "description": None,
                "fields": [{"name": fn, "description": None, "args": [], "type": ft, "isDeprecated": False, "deprecationReason": None} for fn, ft in fields],
                "inputFields": None, "interfaces": [], "enumValues": None, "possibleTypes": None}
    str_nn = {"kind": "NON_NULL", "name": None, "ofType": {"kind": "SCALAR", "name": "String", "ofType": None}}
    return [
        obj("__Schema", [("types", {"kind": "NON_NULL", "name": None, "ofType": {"kind": "LIST", "name": None, "ofType": {"kind": "NON_NULL", "name": None, "ofType": {"kind": "OBJECT", "name": "__Type", "ofType": None}}}})]),
        obj("__Type", [("name", {"kind": "SCALAR", "name": "String", "ofType": None}), ("kind", {"kind": "NON_NULL", "name": None, "ofType": {"kind": "ENUM", "name": "__TypeKind", "ofType": None}})]),
        {"kind": "ENUM", "name": "__TypeKind", "description": None, "fields": None, "inputFields": None, "interfaces": None,
         "enumValues": [{"name": v, "description": None, "isDeprecated": False, "deprecationReason": None} for v in ["SCALAR", "OBJECT", "INTERFACE", "UNION", "ENUM", "INPUT_OBJECT", "LIST", "NON_NULL"]], "possibleTypes": None},
        obj("__Field", [("name", str_nn)]),
    ]


def render_json(schema, wrapped=False, builtins="none", rng=None, order=None, sparse=False, one_of_key=True, indent=None, decoys=False):
    """builtins: 'none' | 'scalars' (built-in scalars listed first) | 'all' (scalars + `__` meta types, interleaved when rng)"""
    s = schema
    names = list(order) if order is not None else list(s.order)
    types = []
    for n in names:
        d = s.types[n]
        k = d["kind"]
        ft = {"kind": None, "name": n, "description": None, "fields": None, "inputFields": None, "interfaces": None,
              "enumValues": None, "possibleTypes": None}
        if k == "scalar":
            ft["kind"] = "SCALAR"
        elif k == "enum":
            ft["kind"] = "ENUM"
            dv = d.get("deprecated_values") or {}
            ft["enumValues"] = [{"name": v, "description": None, "isDeprecated": v in dv, "deprecationReason": (dv.get(v) or {}).get("reason")} for v in d["values"]]
        elif k == "interface":
            ft["kind"] = "INTERFACE"
            ft["fields"] = [_field_json(f, s, sparse) for f in d["fields"]]
            ft["interfaces"] = []
            ft["possibleTypes"] = [_named_ref(o, s) for o in s.possible(n)]
        elif k == "object":
            ft["kind"] = "OBJECT"
            ft["fields"] = [_field_json(f, s, sparse) for f in d["fields"]]
            ft["interfaces"] = [_named_ref(i, s) for i in d.get("implements", [])]
        elif k == "union":
            ft["kind"] = "UNION"
            ft["possibleTypes"] = [_named_ref(o, s) for o in d["members"]]
        elif k == "input":
            ft["kind"] = "INPUT_OBJECT"
            dfl = d.get("defaults") or {}
            ft["inputFields"] = [{"name": f, "description": None, "type": _typeref(t, s), "defaultValue": dfl.get(f)} for f, t in d["fields"]]
            if one_of_key:
                ft["isOneOf"] = bool(d.get("one_of"))
        if sparse:
            ft = {k2: v for k2, v in ft.items() if v is not None or k2 in ("kind", "name")}
        types.append(ft)
    if decoys:
        # types a real server lists although no operation here uses them: an enum whose values are all hidden (every value
        # deprecated and the introspection query run without includeDeprecated), an unused scalar, an unused one-value enum.
        # The enum without values goes in FRONT of the schema's own types, the others at random positions (or the end).
        dec = [{"kind": "ENUM", "name": "ZzAllValuesHidden", "description": None, "fields": None, "inputFields": None, "interfaces": None, "enumValues": [], "possibleTypes": None},
               {"kind": "SCALAR", "name": "ZzUnusedScalar", "description": None, "fields": None, "inputFields": None, "interfaces": None, "enumValues": None, "possibleTypes": None},
               {"kind": "ENUM", "name": "ZzUnusedEnum", "description": None, "fields": None, "inputFields": None, "interfaces": None,
                "enumValues": [{"name": "ONLY", "description": None, "isDeprecated": False, "deprecationReason": None}], "possibleTypes": None}]
        types.insert(0, dec[0])
        for e in dec[1:]:
            types.insert(rng.randint(0, len(types)) if rng is not None else len(types), e)
    if builtins in ("scalars", "all"):
        extra = [_builtin_scalar(n) for n in BUILTIN_SCALARS]
        if builtins == "all":
            extra += _introspection_meta_types(s)
        if rng is not None:
            # interleave at random positions, keeping the relative order of the schema's own types
            for e in extra:
                types.insert(rng.randint(0, len(types)), e)
        else:
            types = extra + types
    r = s.roots
    sch = {"queryType": {"name": r["query"]},
           "mutationType": {"name": r["mutation"]} if r.get("mutation") else None,
           "subscriptionType": {"name": r["subscription"]} if r.get("subscription") else None,
           "types": types,
           "directives": []}
    if sparse:
        sch = {k: v for k, v in sch.items() if v is not None}
    doc = {"__schema": sch}
    if wrapped:
        doc = {"data": doc}
    return json.dumps(doc, indent=indent, ensure_ascii=False)


# ------------------------------------------------------------------------------------------------
# document rendering

def render_sel(items, indent=None, level=1):
    out = []
    for it in items:
        if it[0] == "typename":
            out.append("__typename")
        elif it[0] == "field":
            _, alias, name, args, sub = it
            s = (alias + ": " if alias else "") + name + (args or "")
            if sub is not None:
                s += " " + render_sel(sub, indent, level + 1)
            out.append(s)
        elif it[0] == "inline":
            out.append("... on %s %s" % (it[1], render_sel(it[2], indent, level + 1)))
        elif it[0] == "spread":
            out.append("..." + it[1])
    if indent is None:
        return "{ " + " ".join(out) + " }"
    pad = indent * level
    return "{\n" + "".join(pad + o + "\n" for o in out) + indent * (level - 1) + "}"


def render_vars(vs):
    if not vs:
        return ""
    parts = []
    for v in vs:
        p = "$%s: %s" % (v["name"], render_type(v["type"]))
        if v.get("default") is not None:
            p += " = " + v["default"]
        parts.append(p)
    return "(" + ", ".join(parts) + ")"


def render_operation(op, indent=None):
    return "%s %s%s %s" % (op["kind"], op["name"], render_vars(op.get("vars")), render_sel(op["sel"], indent))


def render_fragment(fr, indent=None):
    return "fragment %s on %s %s" % (fr["name"], fr["on"], render_sel(fr["sel"], indent))


def render_document(doc, indent=None, order=None):
    """order: optional list of ("op", i) / ("frag", i) to interleave definitions"""
    parts = []
    if order is None:
        order = [("op", i) for i in range(len(doc["operations"]))] + [("frag", i) for i in range(len(doc["fragments"]))]
    for k, i in order:
        if k == "op":
            parts.append(render_operation(doc["operations"][i], indent))
        else:
            parts.append(render_fragment(doc["fragments"][i], indent))
    return "\n".join(parts) + "\n"


def frag_map(doc):
    return {f["name"]: f for f in doc["fragments"]}


def root_type(schema, op):
    return schema.roots[{"query": "query", "mutation": "mutation", "subscription": "subscription"}[op["kind"]]]
