"""C15 - Response / Error envelope accepts and preserves every spec-shaped body.
Monitor: the envdrv driver (linked to graphql_client from the working tree) deserialises bodies
generated from the response grammar and reports acceptance, re-serialisation, round trips and
Display per error; oracle: grammar acceptance, lossless re-serialisation modulo unknown members and
null/absent, deserialize(serialize(r)) = r, and an independently written Display."""
import json
import os
import subprocess

from .. import build
from .. import cases as C
from ..factory import Factory
from ..gen_schema import gen_schema
from ..gen_query import gen_document

RULE = ("response bodies from the spec grammar: `data` absent / null / object; `errors` absent / [] / 1-5 entries, each with "
        "message and optional locations (0-3, absent / null), path (names, numeric-looking names, non-negative indices; absent / "
        "null / []), extensions (arbitrary nested JSON incl. big integers, floats, nulls; absent / null); top-level extensions; "
        "unknown members at every level (invented names, names real servers send such as `description` / `code` / `errorType`, names known at another level, case variants); Display also after the value was written into sinks that fail at the first, middle and last byte; compact and pretty texts with non-ASCII and escapes; every body through from_str, "
        "from_value, from_slice and from_reader (borrowed, owned and transient strings). Also Response<generated "
        "ResponseData> through compiled consumer code, and a subset of bodies under Miri. Non-trivial = body with >= 1 error "
        "having a path or locations, or unknown members; distinct by body text")

FLOOR = {"bodies": 2000, "errors-checked": 2000, "with-path": 500, "with-locations": 500, "unknown-members": 500, "data-absent": 100, "data-null": 100, "typed-envelopes": 20}

UNKNOWN_IN_ERROR = ["zz_unknown", "description", "code", "type", "errorType", "validationErrorType", "queryPath", "status", "timestamp", "stack", "name", "data", "errors",
                    "line", "column", "Message", "MESSAGE", "messages", "location", "paths", "extension", "Extensions"]
UNKNOWN_AT_TOP = ["zz_top_unknown", "message", "path", "locations", "status", "error", "hasNext", "label", "incremental", "Data", "Errors", "extension", "description"]
NAMES = ["user", "friends", "name", "id", "12", "0", "é", "a_b", "fieldName", "__typename", "x y", "a.b"]


def rand_json(rng, depth=0):
    r = rng.random()
    if depth > 3 or r < 0.45:
        return rng.choice([None, True, False, 0, -1, 1.5, 1e308, 5e-324, 9223372036854775807, -9223372036854775808, 18446744073709551615,
                           12345678901234567890123, "", "s", "é☃", "a\"b\\c\n\t", "\u0000", "null"])
    if r < 0.7:
        return [rand_json(rng, depth + 1) for _ in range(rng.randint(0, 3))]
    return {rng.choice(["k", "code", "é", "", "nested", "a b", "0"]) + str(rng.randint(0, 3)): rand_json(rng, depth + 1) for _ in range(rng.randint(0, 3))}


def rand_obj(rng):
    return {("k%d" % i if rng.random() < 0.7 else rng.choice(NAMES)): rand_json(rng, 1) for i in range(rng.randint(0, 4))}


def gen_error(rng, st):
    e = {"message": rng.choice(["boom", "", "é ☃", "multi\nline", "with: colons: 1:2", "x" * 300])}
    exp = {"message": e["message"]}
    r = rng.random()
    if r < 0.25:
        pass
    elif r < 0.35:
        e["locations"] = None
    else:
        locs = [{"line": rng.choice([0, 1, 7, 2147483647, -1]), "column": rng.choice([0, 1, 80, 2147483647])} for _ in range(rng.randint(0, 3))]
        exp["locations"] = [dict(l) for l in locs]
        if locs and rng.random() < 0.3:
            locs[0] = dict(locs[0], **{rng.choice(["extra", "offset", "source", "message", "path", "Line"]): rng.choice(["ignored", 3, None])})
            st["unknown"] = True
        e["locations"] = locs
        st["locations"] = True
    r = rng.random()
    if r < 0.25:
        pass
    elif r < 0.35:
        e["path"] = None
    else:
        p = [rng.choice(NAMES) if rng.random() < 0.6 else rng.choice([0, 1, 2, 17, 2147483647]) for _ in range(rng.randint(0, 5))]
        e["path"] = p
        exp["path"] = list(p)
        st["path"] = True
    r = rng.random()
    if r < 0.4:
        pass
    elif r < 0.5:
        e["extensions"] = None
    else:
        e["extensions"] = rand_obj(rng)
        exp["extensions"] = e["extensions"]
    if rng.random() < 0.3:
        # members the type does not know: invented names, names other servers really send, and the names of members that
        # are known at ANOTHER level of the envelope or differ from a known one in case only
        for name in rng.sample(UNKNOWN_IN_ERROR, rng.choice([1, 1, 2])):
            e[name] = rand_json(rng)
        st["unknown"] = True
    return e, exp


def gen_body(rng):
    st = {}
    body, exp = {}, {}
    r = rng.random()
    if r < 0.15:
        st["data"] = "absent"
    elif r < 0.3:
        body["data"] = None
        st["data"] = "null"
    else:
        body["data"] = rand_obj(rng)
        exp["data"] = body["data"]
        st["data"] = "object"
    r = rng.random()
    if r < 0.25:
        pass
    else:
        errs, exps = [], []
        for _ in range(rng.choice([0, 1, 1, 2, 3, 5])):
            e, x = gen_error(rng, st)
            errs.append(e)
            exps.append(x)
        body["errors"] = errs
        exp["errors"] = exps
    r = rng.random()
    if r < 0.5:
        pass
    elif r < 0.6:
        body["extensions"] = None
    else:
        body["extensions"] = rand_obj(rng)
        exp["extensions"] = body["extensions"]
    if rng.random() < 0.3:
        for name in rng.sample(UNKNOWN_AT_TOP, rng.choice([1, 1, 2])):
            body[name] = rand_json(rng)
        st["unknown"] = True
    keys = list(body.items())
    rng.shuffle(keys)
    body = dict(keys)
    text = json.dumps(body, ensure_ascii=rng.random() < 0.5, indent=rng.choice([None, None, 2]))
    return text, body, exp, st


def display_ref(err):
    """independent Display: path:line:column: message"""
    p = err.get("path")
    path = "<query>" if p is None else "/".join(str(x) for x in p)
    locs = err.get("locations") or []
    line, col = (locs[0]["line"], locs[0]["column"]) if locs else (0, 0)
    return "%s:%s:%s: %s" % (path, line, col, err["message"])


def exact(a, b):
    """JSON equality, numbers compared numerically, nothing forgiven"""
    if isinstance(a, bool) or isinstance(b, bool):
        return a is b
    if isinstance(a, (int, float)) and isinstance(b, (int, float)):
        return float(a) == float(b)
    if type(a) != type(b):
        return False
    if isinstance(a, dict):
        return a.keys() == b.keys() and all(exact(a[k], b[k]) for k in a)
    if isinstance(a, list):
        return len(a) == len(b) and all(exact(x, y) for x, y in zip(a, b))
    return a == b


def envelope_same(obs, exp):
    """envelope-level members: null == absent; inside data / extensions: exact"""
    def opt(d, k):
        return d.get(k) if isinstance(d, dict) else None
    for k in ("data", "extensions"):
        a, b = opt(obs, k), opt(exp, k)
        if (a is None) != (b is None) or (a is not None and not exact(a, b)):
            return "%s differs" % k
    ea, eb = opt(obs, "errors"), opt(exp, "errors")
    if (ea is None) != (eb is None):
        return "errors presence differs"
    if ea is not None:
        if len(ea) != len(eb):
            return "errors length differs"
        for i, (x, y) in enumerate(zip(ea, eb)):
            if x.get("message") != y.get("message"):
                return "errors[%d].message differs" % i
            for k in ("locations", "path", "extensions"):
                a, b = x.get(k), y.get(k)
                if (a is None) != (b is None) or (a is not None and not exact(a, b)):
                    return "errors[%d].%s differs: %s vs %s" % (i, k, json.dumps(a)[:80], json.dumps(b)[:80])
    return None


def run_envdrv(lines, miri=False, timeout=900):
    inp = "".join(json.dumps(l) + "\n" for l in lines)
    if not miri:
        p = subprocess.run([build.bin_path("envdrv"), "--quiet-panics"], input=inp, capture_output=True, text=True, timeout=timeout)
    else:
        env = build.cargo_env({"CARGO_TARGET_DIR": os.path.join(build.BUILD, "target-miri"), "MIRIFLAGS": "-Zmiri-disable-isolation"})
        p = subprocess.run(["cargo", "+nightly", "miri", "run", "--offline", "-q", "-p", "envdrv", "--", "--quiet-panics"], cwd=build.HARNESS, env=env,
                           input=inp, capture_output=True, text=True, timeout=timeout)
    out = {}
    for line in p.stdout.splitlines():
        try:
            d = json.loads(line)
            out[d["id"]] = d
        except ValueError:
            pass
    return out, p


def judge_body(run, bid, text, body, exp, st, ob, via=""):
    case = {"id": bid, "corpus": "clean", "body_text": text, "via": via}
    run.evaluated()
    if ob is None:
        run.inconclusive_case(bid, "no observation from the driver")
        return
    sym = None
    if not ob.get("ok"):
        sym = "spec-shaped body rejected: %s" % ob.get("err")
    else:
        d = envelope_same(ob.get("reser"), exp)
        if d:
            sym = "information lost on re-serialisation: %s" % d
        elif not (ob.get("rt_value") and ob.get("rt_str")):
            sym = "deserialize(serialize(r)) != r (value route %s, string route %s)" % (ob.get("rt_value"), ob.get("rt_str"))
        elif not ob.get("via_value"):
            sym = "from_str and from_value disagree on the same body"
        elif not (ob.get("via_slice") and ob.get("via_reader")):
            sym = "from_str accepts the body, from_slice / from_reader give another result (slice %s, reader %s)" % (ob.get("via_slice"), ob.get("via_reader"))
        elif not ob.get("rt_reader"):
            sym = "deserialize(serialize(r)) != r when the bytes are read back through a reader"
        else:
            for i, (e, disp) in enumerate(zip(exp.get("errors") or [], ob.get("displays") or [])):
                run.count("errors-checked")
                if not disp.get("ok"):
                    sym = "Display panicked for errors[%d]" % i
                    break
                if disp.get("s") != display_ref(e):
                    sym = "Display of errors[%d]: %r, reference %r" % (i, disp.get("s"), display_ref(e))
                    break
                for spec, out in (disp.get("specs") or {}).items():
                    # a caller's width / fill / sign / zero / alternate flags: the text is the reference, possibly padded AS A
                    # WHOLE to the width (an implementation may honour width through `Formatter::pad`); flags never reach
                    # the parts (no `+20`, no `000020`, no per-fragment padding)
                    run.count("displays-under-format-specs")
                    ref = display_ref(e)
                    width = int("".join(ch for ch in spec if ch.isdigit()) or 0) if spec not in ("+", "#", "to_string") else 0
                    fill = "*" if spec.startswith("*") else " "
                    ok_spec = out == ref or (len(ref) < width and len(out) == width and out.strip(fill) == ref.strip(fill) and ref in out)
                    if not ok_spec:
                        sym = "Display of errors[%d] under {:%s}: %r, reference %r" % (i, spec, out, ref)
                        break
                if sym:
                    break
                if "again" in disp:
                    run.count("displays-after-failed-writes", disp.get("failed_writes", 0))
                    if disp["again"] != display_ref(e):
                        sym = "Display of errors[%d] after %d writes into failing sinks: %r, reference %r" % (i, disp.get("failed_writes", 0), disp["again"], display_ref(e))
                        break
    if sym:
        run.violation(case, ("[%s] " % via if via else "") + sym, {"observed": ob})
    else:
        run.held()


def main(run):
    run.rule = RULE
    run.assumptions = ["path keys are GraphQL response names (non-empty, no `/`); indices are non-negative 32-bit integers; line / column fit in i32",
                       "`errors: null` is not in the grammar (the spec requires a list); optional members of an error may be null",
                       "T ranges over JSON objects (serde_json::Map) and generated ResponseData types"]
    rng = run.rng
    n = run.size(4000, 200000)
    lines, meta = [], {}
    for i in range(n):
        text, body, exp, st = gen_body(rng)
        bid = "b%d" % i
        lines.append({"id": bid, "kind": "body", "text": text})
        meta[bid] = (text, body, exp, st)
    chunks = [lines[i::16] for i in range(16)]
    from concurrent.futures import ThreadPoolExecutor
    with ThreadPoolExecutor(16) as ex:
        results = list(ex.map(lambda c: run_envdrv(c)[0] if c else {}, chunks))
    obs = {}
    for r in results:
        obs.update(r)
    seen_text = set()
    for bid, (text, body, exp, st) in meta.items():
        run.count("bodies")
        run.count("data-" + st["data"])
        if st.get("path"):
            run.count("with-path")
        if st.get("locations"):
            run.count("with-locations")
        if st.get("unknown"):
            run.count("unknown-members")
        judge_body(run, bid, text, body, exp, st, obs.get(bid))
        if (st.get("path") or st.get("locations") or st.get("unknown")) and text not in seen_text:
            seen_text.add(text)
            run.nontrivial(text)
        if run.counters["bodies"] % 1500 == 1:
            run.sample({"body": text[:600], "observed_displays": [d.get("s") for d in (obs.get(bid) or {}).get("displays", [])]}, limit=4)
    # Response / Error values given structurally: the round-trip law on values
    vlines = []
    for i in range(run.size(500, 20000)):
        text, body, exp, st = gen_body(rng)
        vlines.append({"id": "v%d" % i, "kind": "value", "value": exp})
    vobs, _ = run_envdrv(vlines)
    for l in vlines:
        ob = vobs.get(l["id"])
        run.evaluated()
        run.count("values")
        if ob is None or not ob.get("ok"):
            run.violation({"id": l["id"], "corpus": "clean", "value": l["value"]}, "Response value not constructible: %s" % (ob and ob.get("err")))
        elif not (ob.get("rt_value") and ob.get("rt_str")):
            run.violation({"id": l["id"], "corpus": "clean", "value": l["value"]}, "deserialize(serialize(r)) != r")
        else:
            run.held()
    # typed envelopes: Response<generated ResponseData> in compiled consumer code
    typed(run)
    # Miri subset
    k = run.size(60, 300)
    mlines = lines[:k]
    if os.environ.get("VERIF_SKIP_MIRI"):     # authoring aid for cross-evaluation of seeded changes
        run.extra["miri"] = {"status": "skipped"}
        return run.finish(floor=FLOOR)
    try:
        mobs, p = run_envdrv(mlines, miri=True, timeout=run.size(900, 2400))
        ub = [l for l in p.stderr.splitlines() if "Undefined Behavior" in l or "ata race" in l]
        run.extra["miri"] = {"bodies": len(mlines), "completed": len(mobs), "exit": p.returncode, "ub_reports": ub[:3]}
        if ub:
            run.violation({"id": "miri", "corpus": "clean"}, "miri: %s" % ub[0][:200], {"stderr": p.stderr[-1500:]})
        elif p.returncode != 0 or len(mobs) != len(mlines):
            run.inconclusive_case("miri", "miri exit %s, %d of %d bodies: %s" % (p.returncode, len(mobs), len(mlines), p.stderr[-300:]))
        else:
            for l in mlines:
                text, body, exp, st = meta[l["id"]]
                judge_body(run, l["id"], text, body, exp, st, mobs.get(l["id"]), via="miri")
            run.count("miri-bodies", len(mobs))
    except subprocess.TimeoutExpired:
        run.inconclusive_case("miri", "miri run exceeded its wall-clock budget")
        run.extra["miri"] = {"status": "timeout"}
    return run.finish(floor=FLOOR if run.tier == "quick" else {k: (v * 20 if k != "typed-envelopes" else 200) for k, v in FLOOR.items()})


def typed(run):
    rng = run.rng
    cases = []
    for i in range(run.size(6, 60)):
        schema = gen_schema(rng)
        doc, feats = gen_document(schema, rng, n_ops=1)
        c = C.make_case("t%d" % i, schema, doc, rng, options={})
        vecs, _ = C.resp_vectors(c, rng, n_payloads=4)
        out = []
        for v in vecs:
            st = {}
            errs, exps = [], []
            for _ in range(rng.choice([0, 1, 2])):
                e, x = gen_error(rng, st)
                errs.append(e)
                exps.append(x)
            body = {"data": rng.choice([v["input"], v["input"], None])}
            exp = {}
            if body["data"] is not None:
                exp["data"] = v["expect"]["reser"]
            if errs or rng.random() < 0.3:
                body["errors"] = errs
                exp["errors"] = exps
            if rng.random() < 0.3:
                body["extensions"] = rand_obj(rng)
                exp["extensions"] = body["extensions"]
            out.append({"id": "env." + v["id"], "kind": "envelope", "target": v["target"], "input": body, "expect": exp})
        c["vectors"] = out
        cases.append(c)
    fac = Factory("C15-typed-%d" % run.seed)
    gen, verdict, obs = fac.run(cases)
    from ..shape import same
    for c in cases:
        o = obs.get(c["id"])
        if gen[c["id"]]["outcome"] != "ok" or verdict.get(c["id"]) != "accepted" or o is None or o.get("exit") != 0:
            run.inconclusive_case(c["id"], "typed envelope case did not build / run (C02's business)")
            continue
        for v in c["vectors"]:
            ob = o["obs"].get(v["id"])
            run.evaluated()
            run.count("typed-envelopes")
            sym = None
            if ob is None or not ob.get("ok"):
                sym = "Response<ResponseData> rejected a spec-shaped body: %s" % (ob and ob.get("err"))
            else:
                r = ob["reser"]
                exp = v["expect"]
                if ("data" in exp) != (r.get("data") is not None) or ("data" in exp and not same(r["data"], exp["data"])):
                    sym = "typed data differs"
                else:
                    d = envelope_same({k: x for k, x in r.items() if k != "data"}, {k: x for k, x in exp.items() if k != "data"})
                    if d:
                        sym = "typed envelope: " + d
                    elif isinstance(ob.get("rdr"), dict) and (not ob["rdr"].get("ok") or ob["rdr"].get("reser") != r):
                        sym = "typed envelope through from_reader differs from from_value: %s" % json.dumps(ob["rdr"])[:160]
            if sym:
                one = dict(c)
                one["vectors"] = [v]
                run.violation(one, sym, {"observed": ob})
                break
            run.held()
    fac.cleanup()


def replay(run, rec):
    c = rec["case"]
    if "body_text" in c:
        ob, _ = run_envdrv([{"id": "r", "kind": "body", "text": c["body_text"]}])
        print(json.dumps(ob.get("r"))[:2000])
        run.evaluated()
        if ob.get("r", {}).get("ok"):
            run.held()
        else:
            run.violation(c, "replayed: rejected")
    return run.finish()
