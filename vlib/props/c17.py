"""C17 - code generation terminates cleanly on every input, cyclic ones included.
Monitor: exit status / signal / CPU time (os.wait4) of an isolated worker process running the
generator on one input with nothing caught; oracle: the worker must end by returning (exit 0 /
2) or by a Rust panic with a message (exit 101) - never by a signal, another code, or after more
than 20 s of CPU on an input of a few KB, and never with every thread parked for good in a futex
wait (deadlock monitor of factory.watched_run). rustc catches a proc macro's panic and goes on to
the crate's next derive in the same process, so the same oracle is applied to a worker that runs a
failing input and then further inputs (`after-failure` class, driver mode `serve`)."""
import json
import os
import shutil
from concurrent.futures import ThreadPoolExecutor

from .. import build
from ..factory import run_gendrv_one, NCPU
from .. import gen_adv
from ..gen_schema import gen_schema
from ..gen_query import gen_document
from ..model import render_document, render_sdl, render_json

RULE = ("adversarial (schema, query) texts, one isolated worker process each: fragment-spread cycles of length 1..6 on objects, "
        "interfaces and unions, with and without `__typename`, direct and through fields, and with every link of the cycle a spread directly under an inline fragment; mixed-type cycles; recursive input types "
        "(nullable, list, non-null pairs, self non-null, @oneOf) used as variables, with and without object-literal default values; selection / inline-fragment / list-type / "
        "default-value nesting 8..64, 200 and 3000; interfaces without implementors, one-member and self-referential unions; "
        "unions that are members of themselves / of each other (cycles of 1..3), unions holding interfaces, interfaces and objects "
        "implementing themselves or each other, each x 10 documents with type conditions on members, on the abstract type itself "
        "and on non-members, inline and through spreads; "
        "degenerate and broken schemas (SDL and JSON); truncations, byte flips and bracket insertions of valid documents and "
        "schemas; every failing schema / query file followed, in the same worker process (panics caught, as rustc does for "
        "proc macros), by itself again and by valid inputs over the same and other paths; the CLI delivery of the generator "
        "(output piped through rustfmt) on operations of 200 - 4,000 fields, command and formatter watched as one process tree; long acyclic chains "
        "(input types I0 -> I1 -> ... up to 3,000 / 6,000, fragment spread chains up to 1,000 / 2,500 with fields, as pure aliases, and carrying __typename for an interface) - flat "
        "texts that become deep walks inside the generator; exit judged, CPU time not (hazard corpus: the 60,000-type chain of K10); syntax errors that have to quote 200-900 bytes of non-ASCII text (2-, 3-, 4-byte scripts, "
        "every alignment) in query files, SDL and JSON schema files and query strings; 8 - 28 mutually referring filter inputs (dense input graphs); introspection JSON with ill-formed type references (NON_NULL inside NON_NULL, wrappers without ofType, unknown kinds). Non-trivial = every input except the "
        "unmodified controls; distinct by (schema text, query text)")

CPU_LIMIT_S = 20.0
FLOOR = {"class:spread-cycle": 60, "class:nesting": 20, "class:input-cycle": 15, "class:degenerate": 15, "class:schema-variant": 25,
         "class:mutated-query": 300, "class:mutated-schema": 300, "exit:ok": 5, "exit:err": 100, "class:after-failure": 25, "after-failure-calls": 100, "class:abstract-cycle": 90, "class:cli-large-module": 6, "class:long-chain": 9, "class:nonascii-error": 64, "class:dense-input-graph": 4, "class:json-typeref-degenerate": 30}


def main(run):
    run.rule = RULE
    run.assumptions = ["the worker is `gendrv one`: the library entry point called from main with nothing caught, default 8 MB main-thread stack "
                       "(rustc runs proc macros on a thread of comparable size)",
                       "CPU time is the child's own ru_utime + ru_stime; the 120 s wall-clock watchdog alone is inconclusive"]
    rng = run.rng
    work = os.path.join(build.BUILD, "work", "C17-%d" % run.seed)
    shutil.rmtree(work, ignore_errors=True)
    os.makedirs(work)
    inputs = []   # (class, label, schema_path, query_text)
    cyc = os.path.join(work, "cyc.graphql")
    open(cyc, "w").write(gen_adv.cyc_schema())
    for label, doc in gen_adv.spread_cycles():
        inputs.append(("spread-cycle", label, cyc, doc))
    for label, doc in gen_adv.nesting():
        inputs.append(("nesting", label, cyc, doc))
    for label, doc in gen_adv.input_cycles():
        inputs.append(("input-cycle", label, cyc, doc))
    for label, doc in gen_adv.degenerate():
        inputs.append(("degenerate", label, cyc, doc))
    for i, (label, ext, text) in enumerate(gen_adv.schema_variants()):
        p = os.path.join(work, "v%d%s" % (i, ("." + ext) if ext else ""))
        open(p, "w").write(text)
        inputs.append(("schema-variant", label, p, "query Q { x }\n"))
    acs = {}
    for label, stext, doc in gen_adv.abstract_cycles():
        if stext not in acs:
            acs[stext] = os.path.join(work, "ac%d.graphql" % len(acs))
            open(acs[stext], "w").write(stext)
        inputs.append(("abstract-cycle", label, acs[stext], doc))
    inputs.append(("schema-variant", "missing-schema-file", os.path.join(work, "does_not_exist.graphql"), "query Q { x }\n"))
    # the cyclic schema as introspection JSON is not available (hand-written SDL); random schemas cover the JSON front-end
    n_rand = run.size(12, 400)
    per = run.size(28, 60)
    for si in range(n_rand):
        schema = gen_schema(rng, deprecations=0.1)
        doc, _ = gen_document(schema, rng)
        dtext = render_document(doc)
        sdl = render_sdl(schema)
        js = render_json(schema, indent=None)
        sp = os.path.join(work, "r%d.graphql" % si)
        jp = os.path.join(work, "r%d.json" % si)
        open(sp, "w").write(sdl)
        open(jp, "w").write(js)
        inputs.append(("control", "valid pair sdl", sp, dtext))
        inputs.append(("control", "valid pair json", jp, dtext))
        for label, q in gen_adv.mutations_of(dtext, rng, per // 4, per - per // 4):
            inputs.append(("mutated-query", label, sp if rng.random() < 0.7 else jp, q))
        for mi, (label, stext) in enumerate(gen_adv.mutations_of(sdl, rng, per // 4, per // 4)):
            p = os.path.join(work, "r%d_m%d.graphql" % (si, mi))
            open(p, "w").write(stext)
            inputs.append(("mutated-schema", "sdl " + label, p, dtext))
        for mi, (label, stext) in enumerate(gen_adv.mutations_of(js, rng, per // 4, per // 4)):
            p = os.path.join(work, "r%d_m%d.json" % (si, mi))
            open(p, "w", encoding="utf-8").write(stext)
            inputs.append(("mutated-schema", "json " + label, p, dtext))
    # a failing call followed by further calls in the same process: the failing one again, a valid one through the same
    # cache, the cyclic documents. Failing = every broken / degenerate schema file above plus broken and invalid query files.
    okq = os.path.join(work, "ok_q.graphql")
    open(okq, "w").write("query Q { a { id } }\n")
    badq = os.path.join(work, "bad_q.graphql")
    open(badq, "w").write("query Q { a { id ")
    invq = os.path.join(work, "inv_q.graphql")
    open(invq, "w").write("query Q { zz_nope }\n")
    firsts = [(lab, {"schema_path": sp, "query_text": q}) for cls, lab, sp, q in inputs if cls == "schema-variant"]
    firsts += [("broken-query-file", {"schema_path": cyc, "query_path": badq}), ("invalid-query-file", {"schema_path": cyc, "query_path": invq}),
               ("missing-query-file", {"schema_path": cyc, "query_path": os.path.join(work, "nope_q.graphql")}),
               ("broken-query-text", {"schema_path": cyc, "query_text": "query Q { a { "})]
    cycdocs = gen_adv.spread_cycles()
    for fi, (lab, first) in enumerate(firsts):
        follow = [first, {"schema_path": cyc, "query_path": okq}, {"schema_path": cyc, "query_text": "query Q { a { id } }\n"}, first,
                  {"schema_path": cyc, "query_text": cycdocs[fi % len(cycdocs)][1]}, {"schema_path": cyc, "query_path": okq}]
        seqs = [dict(r, id="q%d" % i, options={"mode": "cli"}, want=[]) for i, r in enumerate([first] + follow)]
        inputs.append(("after-failure", lab, seqs, None))
    # cycle fragments spliced into the cyclic schema's documents with random byte flips as well
    for label, doc in gen_adv.spread_cycles()[:: run.size(6, 1)]:
        for l2, q in gen_adv.mutations_of(doc, rng, 1, 3):
            inputs.append(("mutated-query", label + " " + l2, cyc, q))

    # long ACYCLIC chains: flat inputs (no nesting the parsers could refuse) that turn into deep walks inside the generator.
    # Within the bounds below they must come back like anything else; CPU time is not judged for them (the walks are
    # quadratic to cubic in the chain length, which is slow, not a loop). The 60,000-type input chain is finding K10.
    def input_chain(n):
        return ("".join("input I%d { next: I%d v: Int }\n" % (i, i + 1) for i in range(n)) + "input I%d { v: Int }\n" % n + "type Query { f(a: I0): Int }\n",
                "query Q($a: I0) { f(a: $a) }\n")

    def fragment_chain(n, alias_only=False, typename=False):
        body = "" if alias_only else ("__typename id " if typename else "id ")
        return ("interface N { id: ID }\ntype Query { a: A n: N }\ntype A implements N { id: ID a: A }\n",
                "query Q { %s { ...F0 } }\n" % ("n" if typename else "a") + "".join("fragment F%d on %s { %s...F%d }\n" % (i, "N" if typename else "A", body, i + 1) for i in range(n))
                + "fragment F%d on %s { %sid }\n" % (n, "N" if typename else "A", "__typename " if typename else ""))
    chains = [("input-chain-%d" % n, input_chain(n)) for n in (500, 2000, run.size(3000, 6000))]
    chains += [("fragment-chain-%d" % n, fragment_chain(n)) for n in (300, run.size(1000, 2500))]
    chains += [("alias-fragment-chain-%d" % n, fragment_chain(n, alias_only=True)) for n in (300, run.size(1000, 2500))]
    chains += [("typename-through-fragment-chain-%d" % n, fragment_chain(n, typename=True)) for n in (300, run.size(1000, 2500))]
    for ci, (label, (stext, q)) in enumerate(chains):
        p = os.path.join(work, "chain%d.graphql" % ci)
        open(p, "w").write(stext)
        inputs.append(("long-chain", label, p, q))
    p = os.path.join(work, "chain_k10.graphql")
    open(p, "w").write(input_chain(60000)[0])
    inputs.append(("long-chain-hazard", "input-chain-60000", p, input_chain(60000)[1]))

    # syntax errors whose message has to quote long non-ASCII text (a misplaced string / description), loaded through the FILE
    # entry point (the one the derive and the CLI use): whatever renders, truncates or wraps such a message must do it on
    # character boundaries. 2-, 3- and 4-byte scripts, 0-3 ASCII characters in front to shift every alignment.
    scripts = [("cyrillic", "\u0436\u0443\u0440\u043d\u0430\u043b "), ("cjk", "\u65e5\u672c\u8a9e\u306e\u8aac\u660e"), ("emoji", "\U0001F980\U0001F40D"), ("mixed", "a\u00e9\u4e2d\U0001F600")]
    ni = 0
    for sname, unit in scripts:
        for pad in range(4):
            text = "x" * pad + unit * 60
            bq = os.path.join(work, "na_q%d.graphql" % ni)
            open(bq, "w", encoding="utf-8").write('query Q { "%s" }\n' % text)
            inputs.append(("nonascii-error", "query file: string where a field is expected, %s, pad %d" % (sname, pad), cyc, {"query_path": bq}))
            bs = os.path.join(work, "na_s%d.graphql" % ni)
            open(bs, "w", encoding="utf-8").write('type Query { a: """%s""" Int }\n' % text)
            inputs.append(("nonascii-error", "schema file: description where a type is expected, %s, pad %d" % (sname, pad), bs, "query Q { a }\n"))
            bj = os.path.join(work, "na_j%d.json" % ni)
            open(bj, "w", encoding="utf-8").write('{"data": {"__schema": {"%s": }}}' % text)
            inputs.append(("nonascii-error", "json schema: broken after a long key, %s, pad %d" % (sname, pad), bj, "query Q { a }\n"))
            inputs.append(("nonascii-error", "query text: string where a field is expected, %s, pad %d" % (sname, pad), cyc, 'query Q { "%s" }\n' % text))
            ni += 1

    # densely connected input types (filter inputs in the style of Prisma / Hasura: every `ModelWhere` mentions every other one
    # through nullable non-list members), entered through types that are not on a cycle themselves: the walks must stay
    # polynomial (a per-path visited set makes them factorial)
    for n in (8, 12, 16, run.size(20, 28)):
        stext = "".join("input Model%dWhere { %s AND: [Model%dWhere!] eq: Int }\n" % (i, " ".join("m%d: Model%dWhere" % (j, j) for j in range(n) if j != i), i) for i in range(n))
        stext += "input Filter { where: Model0Where other: Model1Where }\ninput SearchArgs { filter: Filter first: Int }\ntype Query { search(args: SearchArgs): Int }\n"
        p = os.path.join(work, "dense%d.graphql" % n)
        open(p, "w").write(stext)
        inputs.append(("dense-input-graph", "%d mutually referring filter inputs" % n, p, "query Q($args: SearchArgs) { search(args: $args) }\n"))
    # introspection JSON whose type references are not what a server produces (NON_NULL directly inside NON_NULL, wrappers
    # without ofType, unknown kinds, a name on a wrapper): loading such a schema must end, selected or not
    def jschema(tref, select=True):
        return json.dumps({"data": {"__schema": {"queryType": {"name": "Query"}, "mutationType": None, "subscriptionType": None, "directives": [], "types": [
            {"kind": "OBJECT", "name": "Query", "fields": [{"name": "odd", "args": [], "type": tref, "isDeprecated": False, "deprecationReason": None},
                                                            {"name": "fine", "args": [], "type": {"kind": "SCALAR", "name": "Int", "ofType": None}, "isDeprecated": False, "deprecationReason": None}],
             "inputFields": None, "interfaces": [], "enumValues": None, "possibleTypes": None},
            {"kind": "INPUT_OBJECT", "name": "In", "fields": None, "inputFields": [{"name": "odd", "type": tref, "defaultValue": None}], "interfaces": None, "enumValues": None, "possibleTypes": None}]}}})
    INT = {"kind": "SCALAR", "name": "Int", "ofType": None}
    NNt = lambda t: {"kind": "NON_NULL", "name": None, "ofType": t}
    Lt = lambda t: {"kind": "LIST", "name": None, "ofType": t}
    odd_refs = [("NON_NULL of NON_NULL", NNt(NNt(INT))), ("NON_NULL of NON_NULL of LIST", NNt(NNt(Lt(INT)))), ("LIST of NON_NULL of NON_NULL", Lt(NNt(NNt(INT)))), ("triple NON_NULL", NNt(NNt(NNt(INT)))),
                ("NON_NULL without ofType", {"kind": "NON_NULL", "name": None, "ofType": None}), ("LIST without ofType", {"kind": "LIST", "name": None, "ofType": None}),
                ("unknown kind", {"kind": "TUPLE", "name": None, "ofType": INT}), ("wrapper with a name", {"kind": "LIST", "name": "Int", "ofType": INT}),
                ("named type that does not exist", {"kind": "OBJECT", "name": "Nope", "ofType": None}), ("scalar with ofType", {"kind": "SCALAR", "name": "Int", "ofType": INT})]
    for oi, (label, tref) in enumerate(odd_refs):
        p = os.path.join(work, "oddref%d.json" % oi)
        open(p, "w").write(jschema(tref))
        inputs.append(("json-typeref-degenerate", label + ", field selected", p, "query Q { odd }\n"))
        inputs.append(("json-typeref-degenerate", label + ", field not selected", p, "query Q { fine }\n"))
        inputs.append(("json-typeref-degenerate", label + ", as input field", p, "query Q($i: In) { fine }\n"))

    def one(args):
        cls, label, sp, q = args
        if isinstance(q, dict):
            req = dict({"id": "x", "schema_path": sp, "options": {"mode": "cli"}, "want": []}, **q)
            return run_gendrv_one(req, cpu_s=60, as_bytes=8 << 30, wall_s=120)
        if cls.startswith("long-chain"):
            return run_gendrv_one({"id": "x", "schema_path": sp, "query_text": q, "options": {"mode": "cli"}, "want": []}, cpu_s=600, as_bytes=8 << 30, wall_s=900)
        if cls == "after-failure":
            return run_gendrv_one(sp, cpu_s=120, as_bytes=8 << 30, wall_s=240, mode="serve")
        req = {"id": "x", "schema_path": sp, "query_text": q, "options": {"mode": "cli"}, "want": []}
        r = run_gendrv_one(req, cpu_s=60, as_bytes=8 << 30, wall_s=120)
        if r["timed_out"] and r["cpu_s"] < CPU_LIMIT_S:
            r2 = run_gendrv_one(req, cpu_s=60, as_bytes=8 << 30, wall_s=240)   # once more, alone-ish
            r2["retried"] = True
            return r2
        return r
    with ThreadPoolExecutor(NCPU) as ex:
        results = list(ex.map(one, inputs))
    for (cls, label, sp, q), r in zip(inputs, results):
        run.evaluated()
        run.count("class:" + cls)
        if cls == "after-failure":
            judge_sequence(run, label, sp, r)
            continue
        try:
            stext = open(sp, encoding="utf-8", errors="replace").read() if os.path.exists(sp) else None
        except OSError:
            stext = None
        if isinstance(q, dict):
            q = "<file %s>: %s" % (os.path.basename(q["query_path"]), open(q["query_path"], encoding="utf-8").read())
        case = {"id": "%s:%s" % (cls, label), "corpus": "hazard:K10" if cls == "long-chain-hazard" else "clean", "class": cls, "label": label, "doc_text": q if len(q) < 20000 else q[:2000] + "...(%d bytes)" % len(q),
                "schema_text": stext if stext is None or len(stext) < 60000 else stext[:2000] + "...", "schema_ext": os.path.splitext(sp)[1][1:], "schema_missing": stext is None,
                "full_doc_len": len(q)}
        if len(q) >= 20000:
            case["doc_regen"] = label
        sym = None
        if r.get("deadlock"):
            sym = "deadlock (%s): all %d thread(s) of the worker in a futex wait without timeout, never scheduled again" % (cls, r["deadlock_threads"])
        elif r["signal"] is not None and not r["timed_out"]:
            import re as _re
            sym = "killed-by-signal %d (%s): %s" % (r["signal"], cls, _re.sub(r"\(\d+\)", "", r["stderr"].strip().replace("\n", " "))[-120:])
        elif r["timed_out"]:
            if r["cpu_s"] >= CPU_LIMIT_S:
                sym = "no-termination: %.1f s CPU (%s)" % (r["cpu_s"], cls)
            else:
                run.inconclusive_case(case["id"], "wall-clock watchdog fired with %.1f s CPU" % r["cpu_s"])
                continue
        elif r["cpu_s"] >= CPU_LIMIT_S and not cls.startswith("long-chain"):
            sym = "cpu-time %.1f s on a %d-byte input (%s)" % (r["cpu_s"], len(q), cls)
        elif r["exit"] == 0:
            run.count("exit:ok")
        elif r["exit"] == 2:
            run.count("exit:err")
        elif r["exit"] == 101:
            run.count("exit:panic")
            if not r["panic_message"]:
                sym = "exit 101 without a panic message (%s)" % cls
        else:
            sym = "unexpected exit code %s (%s): %s" % (r["exit"], cls, r["stderr"][-120:])
        if cls == "control" and r["exit"] != 0 and sym is None:
            run.inconclusive_case(case["id"], "control pair rejected: %s" % ((r.get("response") or {}).get("message") or r["stderr"])[:200])
            continue
        if cls == "long-chain-hazard":
            run.witness_result("K10", bool(sym))
        if sym:
            run.violation(case, sym, {"observation": {k: v for k, v in r.items() if k != "response"}})
        else:
            run.held()
        if cls != "control":
            run.nontrivial(stext, q)
        if run.counters["class:" + cls] in (1, 40):
            run.sample({"class": cls, "label": label, "query": q[:300], "exit": r["exit"], "signal": r["signal"], "cpu_s": r["cpu_s"], "max_rss_kb": r["max_rss_kb"],
                        "message": ((r.get("response") or {}).get("message") or r["stderr"])[:160]}, limit=10)
        run.extra["max_cpu_s"] = max(run.extra.get("max_cpu_s", 0), r["cpu_s"])
        run.extra["max_rss_kb"] = max(run.extra.get("max_rss_kb", 0), r["max_rss_kb"])
    cli_large_modules(run, work)
    shutil.rmtree(work, ignore_errors=True)
    return run.finish(floor=FLOOR if run.tier == "quick" else {k: (v * 20 if k.startswith("class:mutated") else v) for k, v in FLOOR.items()})


def cli_large_modules(run, work):
    """code generation as the CLI delivers it: the generator's output piped through rustfmt. Modules of 50 KB - 1 MB (more than
    a pipe holds) must come back; the command and the formatter it spawns are watched as one process tree"""
    import subprocess
    from .c02 import run_cli, DEADLOCK_RC
    build.build_cli()
    sp = os.path.join(work, "cli_schema.graphql")
    open(sp, "w").write("type Query { v: Int s: String }\n")
    for n_fields in (200, 1500, run.size(4000, 12000)):
        for nofmt in (False, True):
            d = os.path.join(work, "cli_%d_%d" % (n_fields, nofmt))
            os.makedirs(d)
            qp = os.path.join(d, "big.graphql")
            open(qp, "w").write("query Big {\n" + "".join("  a%d: %s\n" % (k, "v" if k % 2 else "s") for k in range(n_fields)) + "}\n")
            run.evaluated()
            run.count("class:cli-large-module")
            case = {"id": "cli-large-module:%d-fields%s" % (n_fields, "-unformatted" if nofmt else ""), "corpus": "clean", "class": "cli-large-module", "fields": n_fields, "no_formatting": nofmt}
            try:
                rc, so, se = run_cli(["generate", "--schema-path", sp, qp, "-o", d] + (["--no-formatting"] if nofmt else []), cwd=d, timeout=240)
            except subprocess.TimeoutExpired:
                run.inconclusive_case(case["id"], "wall-clock watchdog fired on a CLI invocation")
                continue
            if rc == DEADLOCK_RC:
                run.violation(case, "deadlock: `graphql-client generate` on a %d-field operation never terminates: %s" % (n_fields, se[:160].strip()))
            elif rc != 0 or not os.path.exists(os.path.join(d, "big.rs")):
                run.violation(case, "`graphql-client generate` on a %d-field operation: exit %s, output %s: %s" % (n_fields, rc, "missing" if rc == 0 else "-", se[-160:]))
            else:
                run.held()
                run.nontrivial("cli-large-module", n_fields, nofmt)
                if n_fields >= 4000 and not nofmt:
                    run.sample({"class": "cli-large-module", "fields": n_fields, "output_bytes": os.path.getsize(os.path.join(d, "big.rs"))}, limit=10)


def judge_sequence(run, label, seqs, r):
    """a failing call, then more calls, one worker process with panics caught: every call must come back"""
    n_back = len(r.get("responses") or [])
    run.count("after-failure-calls", n_back)
    texts = {}
    for q in seqs:
        for k in ("schema_path", "query_path"):
            pth = q.get(k)
            if pth and pth not in texts:
                try:
                    texts[pth] = open(pth, encoding="utf-8", errors="replace").read()[:20000]
                except OSError:
                    texts[pth] = None
    case = {"id": "after-failure:%s" % label, "corpus": "clean", "class": "after-failure", "label": label, "sequence": seqs, "files": texts}
    outcomes = [x.get("outcome") for x in (r.get("responses") or [])]
    sym = None
    if r.get("deadlock"):
        sym = "deadlock in call %d of %d after a failing call (%s): all %d thread(s) in a futex wait without timeout; outcomes so far %s" % (
            n_back, len(seqs), label, r["deadlock_threads"], outcomes)
    elif r["timed_out"]:
        if r["cpu_s"] >= CPU_LIMIT_S * len(seqs):
            sym = "no-termination after a failing call (%s): %.1f s CPU" % (label, r["cpu_s"])
        else:
            run.inconclusive_case(case["id"], "wall-clock watchdog fired with %.1f s CPU" % r["cpu_s"])
            return
    elif r["signal"] is not None:
        sym = "killed-by-signal %d in call %d of %d after a failing call (%s)" % (r["signal"], n_back, len(seqs), label)
    elif r["exit"] != 0 or n_back != len(seqs):
        sym = "worker exit %s with %d of %d calls answered after a failing call (%s): %s" % (r["exit"], n_back, len(seqs), label, r["stderr"][-120:])
    if sym:
        run.violation(case, sym, {"observation": {k: v for k, v in r.items() if k not in ("response", "responses")}})
    else:
        run.held()
        run.nontrivial("after-failure", label)
        if run.counters["class:after-failure"] in (1, 20):
            run.sample({"class": "after-failure", "label": label, "outcomes": outcomes, "cpu_s": r["cpu_s"]}, limit=10)


def replay(run, rec):
    c = rec["case"]
    if c.get("class") == "after-failure":
        for pth, text in (c.get("files") or {}).items():
            if text is not None:
                os.makedirs(os.path.dirname(pth), exist_ok=True)
                open(pth, "w", encoding="utf-8").write(text)
        r = run_gendrv_one(c["sequence"], cpu_s=120, as_bytes=8 << 30, wall_s=240, mode="serve")
        run.evaluated()
        run.count("class:after-failure")
        judge_sequence(run, c["label"], c["sequence"], r)
        return run.finish()
    work = os.path.join(build.BUILD, "work", "C17-replay")
    os.makedirs(work, exist_ok=True)
    sp = os.path.join(work, "s." + (c.get("schema_ext") or "graphql"))
    if not c.get("schema_missing"):
        open(sp, "w", encoding="utf-8").write(c["schema_text"])
    q = c["doc_text"]
    if c.get("doc_regen"):
        q = dict(gen_adv.nesting()).get(c["doc_regen"], q)
    r = run_gendrv_one({"id": "x", "schema_path": sp, "query_text": q, "options": {"mode": "cli"}, "want": []})
    run.evaluated()
    print({k: v for k, v in r.items() if k != "response"})
    if r.get("deadlock") or r["signal"] is not None or r["exit"] not in (0, 2, 101) or r["cpu_s"] >= CPU_LIMIT_S:
        run.violation(c, "replayed: exit=%s signal=%s cpu=%.1f" % (r["exit"], r["signal"], r["cpu_s"]))
    else:
        run.held()
    return run.finish()
