"""C05 - request body carries the verbatim document and the right operation name.
Monitors: (A) QUERY / OPERATION_NAME constants and the per-module ResponseData / Variables keys in
the emitted items for hostile document texts and every selection mode, generator error texts;
(B) compiled consumer code: to_value(build_query(v)) members, and real derives whose struct name
does / does not match an operation (rustc diagnostics + derive event log)."""
import json
import os
import shutil

from .. import build
from .. import cases as C
from ..factory import Factory, run_gendrv_parallel, support_code, discover
from ..gen_schema import gen_schema
from ..gen_query import DocGen, reachable_fragments, type_name_collision
from ..gen_text import rerender
from ..gen_vars import ValueGen
from ..model import render_document, render_operation, render_fragment, Schema, is_nn, root_type
from ..shape import Hazards
from ..cases import render_schema
from .. import names
from .c02 import derive_source

RULE = ("documents with 1-5 operations and 0-4+ fragments in random definition order, re-rendered with arbitrary insignificant "
        "separators (blanks, tabs, commas, CR / LF / CRLF, `#` comments with non-ASCII, dense), string and block-string argument "
        "literals with escapes and non-ASCII; operation names in every case style. Selection matrix: library/CLI mode without a name "
        "(one module per operation, in order), with each existing name (exactly that module); derive mode with the exact name, a "
        "name matching only under normalization = rust (with and without it), a name matching nothing, an empty document. "
        "QUERY must equal the file text byte for byte, OPERATION_NAME the source name, and each module's ResponseData / Variables "
        "keys those of its own operation. Same-named documents one directory apart are reached in one process through `..` / `.` / `//` spellings of their paths: each QUERY must be the file the spelling resolves to. One driver process regenerates over one query path whose file is rewritten between the calls (8 sequences of 2-4 versions): QUERY, OPERATION_NAME, Variables and ResponseData of each call must all come from one version of the file. A subset is compiled: body members and real derives (match / no match). Non-trivial = "
        "document with >= 2 operations or a comment / CR / string literal; distinct by (document text, mode, name)")

OP_NAMES = ["Op%d", "GetThing%d", "getThing%d", "get_thing_%d", "Q%dx", "UPPER_%d", "x%d", "My_Query%d", "HTTPQuery%d"]
FLOOR = {"documents": 40, "query-bytes-compared": 150, "mode:all-operations": 40, "mode:selected-operation": 60, "mode:derive-exact": 40, "mode:derive-normalized": 10,
         "mode:derive-no-match": 40, "mode:derive-needs-normalization": 10, "compiled-bodies": 10, "real-derives-match": 5, "real-derives-no-match": 5, "path-spellings": 20, "rewritten-query-file-calls": 24, "cli-file-name-cases": 9, "with-comment-or-cr": 20, "mode:derive-colliding-names": 3}


def gen_doc(schema, rng, n_ops):
    avail = [k for k in ("query", "mutation", "subscription") if schema.roots.get(k)]
    for attempt in range(60):
        g = DocGen(schema, rng, literal_args=0.5, max_depth=2)
        ops = []
        used_names = set()
        for i in range(n_ops):
            kind = rng.choice(avail)
            while True:
                name = rng.choice(OP_NAMES) % (i + 1)
                if names.snake(name) not in used_names and names.camel(name) not in used_names:
                    break
            used_names.add(names.snake(name))
            used_names.add(names.camel(name))
            op = g.operation(kind, name)
            if op is None:
                break
            ops.append(op)
        if len(ops) != n_ops:
            continue
        used = reachable_fragments(ops, g.frags)
        doc = {"operations": ops, "fragments": [g.frags[f] for f in g.frag_order if f in used]}
        if Hazards(schema, doc).first_hazard():
            continue
        # module names must differ; type-name collisions inside a module are C02's business but make generation noisy
        ns = [names.snake(o["name"]) for o in ops]
        if len(set(ns)) != len(ns):
            continue
        d2 = {"operations": [dict(o, name="Zq%d" % i) for i, o in enumerate(ops)], "fragments": doc["fragments"]}
        if type_name_collision(schema, d2):
            continue
        return doc
    raise RuntimeError("no document")


def render_shuffled(doc, rng):
    order = [("op", i) for i in range(len(doc["operations"]))] + [("frag", i) for i in range(len(doc["fragments"]))]
    rng.shuffle(order)
    return render_document(doc, order=order), [doc["operations"][i]["name"] for k, i in order if k == "op"]


def expected_keys(op):
    return sorted((it[1] or it[2]) for it in op["sel"] if it[0] == "field")


def module_view(inspect):
    """module -> {OPERATION_NAME, QUERY, response_keys, variable_keys}; plus module order and top-level structs"""
    mods = {}
    order = []
    for it in inspect.get("items", []):
        if it["kind"] == "mod" and not it["path"]:
            order.append(it["name"])
            mods[it["name"]] = {}
        elif it["kind"] == "const" and len(it["path"]) == 1 and it["name"] in ("OPERATION_NAME", "QUERY"):
            mods[it["path"][0]][it["name"]] = it["value"]
        elif it["kind"] == "struct" and len(it["path"]) == 1 and it["name"] in ("ResponseData", "Variables"):
            mods[it["path"][0]][it["name"]] = sorted(f["key"] for f in it["fields"] if not f["serde"].get("flatten"))
            mods[it["path"][0]][it["name"] + "_flatten"] = len([f for f in it["fields"] if f["serde"].get("flatten")])
    structs = [it["name"] for it in inspect.get("items", []) if it["kind"] == "struct" and not it["path"]]
    return mods, order, structs


def cli_file_names(run, work):
    """the CLI binary itself, no --selected-operation: one module per operation whatever the query FILE is called - also when
    its stem is the name of one of the operations (exactly, in another case, as a prefix), and the selected one alone when the
    flag names it"""
    import re as _re
    from .c02 import run_cli, DEADLOCK_RC
    from ..factory import run_gendrv
    d = os.path.join(work, "cli_names")
    os.makedirs(d)
    sp = os.path.join(d, "schema.graphql")
    open(sp, "w").write("type Query { height(unit: String): Int echo(msg: String): String }\n")
    doc = "query Heights($u: String) { height(unit: $u) }\nquery Echo($m: String) { echo(msg: $m) }\nquery echo_twice { a: echo b: echo }\n"
    ops = ["Heights", "Echo", "echo_twice"]
    jobs = []
    for stem in ("Heights", "Echo", "echo_twice", "heights", "Echo2", "queries", "Query"):
        jobs.append((stem, None))
    jobs.append(("Heights", "Echo"))
    jobs.append(("queries", "echo_twice"))
    for ji, (stem, selected) in enumerate(jobs):
        jd = os.path.join(d, "j%d" % ji)
        os.makedirs(os.path.join(jd, "out"))
        qp = os.path.join(jd, stem + ".graphql")
        open(qp, "w").write(doc)
        argv = ["generate", "--schema-path", sp, qp, "-o", os.path.join(jd, "out"), "--no-formatting"] + (["--selected-operation", selected] if selected else [])
        run.evaluated()
        run.count("cli-file-name-cases")
        case = {"id": "cli-name-%s%s" % (stem, "-selected-" + selected if selected else ""), "corpus": "clean", "mode": "cli-binary", "argv": [a.replace(d, "$DIR") for a in argv], "doc_text": doc}
        rc, so, se = run_cli(argv, cwd=jd)
        out = os.path.join(jd, "out", stem + ".rs")
        if rc == DEADLOCK_RC or rc != 0 or not os.path.exists(out):
            run.violation(case, "CLI exit %s, output %s: %s" % (rc, "present" if os.path.exists(out) else "missing", se[-160:]))
            continue
        got = _re.findall(r'OPERATION_NAME\s*:\s*&\s*str\s*=\s*"([^"]*)"', open(out).read())
        want = [selected] if selected else ops
        if got != want:
            run.violation(case, "query file %s.graphql%s: modules for operations %s, expected %s" % (stem, " with --selected-operation " + selected if selected else "", got, want))
        else:
            run.held()
            run.nontrivial("cli-file-name", stem, selected)


def path_spellings(run, work):
    """documents with the same base name (and the same operation name) one directory apart, reached in one process through
    paths spelt with `..`, `.` and doubled slashes: each call's QUERY must be the text of the file the operating system
    resolves that spelling to, and its ResponseData that document's"""
    from ..factory import run_gendrv
    root = os.path.join(work, "paths")
    os.makedirs(os.path.join(root, "v2", "v3"))
    sp = os.path.join(root, "schema.graphql")
    open(sp, "w").write("type Query { a: Int b: Int c: String }\n")
    texts = {"lookup.graphql": "query Lookup { a }\n", "v2/lookup.graphql": "# second\nquery Lookup { b }\n", "v2/v3/lookup.graphql": "query Lookup {\n  c\n}\n"}
    for rel, t in texts.items():
        open(os.path.join(root, rel), "w").write(t)
    spellings = ["v2/../lookup.graphql", "v2/lookup.graphql", "./v2/lookup.graphql", "v2/v3/../lookup.graphql", "v2/v3/../../lookup.graphql", "/lookup.graphql",
                 "v2/v3/lookup.graphql", "v2/./v3/../v3/lookup.graphql", "lookup.graphql", "v2//lookup.graphql", "v2/v3/../../v2/lookup.graphql"]
    seq = list(spellings) + list(spellings)
    run.sub_rng("paths").shuffle(seq)
    reqs = [{"id": "ps%d" % i, "schema_path": sp, "query_path": root + "/" + spl, "options": {"mode": "cli"}, "want": ["inspect"]} for i, spl in enumerate(seq)]
    for req, resp, spl in zip(reqs, run_gendrv(reqs), seq):
        run.evaluated()
        run.count("path-spellings")
        real = os.path.realpath(req["query_path"])
        want = open(real).read()
        case = {"id": req["id"], "corpus": "clean", "mode": "path-spelling", "spelling": spl, "sequence": seq, "files": texts, "doc_text": want, "schema_text": "type Query { a: Int b: Int c: String }\n", "schema_ext": "graphql",
                "options": {"mode": "cli"}}
        if resp["outcome"] != "ok":
            run.violation(case, "generation-%s for the spelling %s: %s" % (resp["outcome"], spl, (resp.get("message") or "")[:160]))
            continue
        mods, order, _ = module_view(resp["inspect"])
        mv = mods.get(order[0], {}) if order else {}
        field = want.split("{")[1].split("}")[0].strip()
        if mv.get("QUERY") != want:
            run.violation(case, "QUERY of %s is not the text of %s (the file the path resolves to) but %r" % (spl, os.path.relpath(real, root), (mv.get("QUERY") or "")[:60]))
        elif mv.get("ResponseData") != [field]:
            run.violation(case, "ResponseData of %s has keys %s, its document selects %s" % (spl, mv.get("ResponseData"), field))
        else:
            run.held()
            run.nontrivial("path-spelling", spl)


def rewritten_between_calls(run, work):
    """one driver process, one query path, the file rewritten between consecutive calls (a build script or a long-lived
    proc-macro server regenerating after an edit). Whether a later call sees the old or the new text is not this property's
    business (the cache is keyed by path); that QUERY, OPERATION_NAME, Variables and ResponseData of ONE call all come from
    ONE version of the file is: the body must never name an operation its document does not define"""
    import subprocess
    import select
    root = os.path.join(work, "rewrite")
    os.makedirs(root)
    sp = os.path.join(root, "schema.graphql")
    stext = "type Query { a: Int b(x: Int): Int c(s: String, t: Int): String }\n"
    open(sp, "w").write(stext)
    versions = {
        "V1": ("query Alpha { a }\n", {"Alpha": ([], ["a"])}),
        "V2": ("query Beta($x: Int) { b(x: $x) }\n", {"Beta": (["x"], ["b"])}),
        "V3": ("# third edit\nquery Gamma($s: String, $t: Int) { c(s: $s, t: $t) }\nquery Alpha($x: Int) { a b(x: $x) }\n", {"Gamma": (["s", "t"], ["c"]), "Alpha": (["x"], ["a", "b"])}),
        "V4": ("query Alpha {\n  a\n}\n", {"Alpha": ([], ["a"])}),
    }
    seqs = [["V1", "V2"], ["V2", "V1", "V2"], ["V1", "V3", "V1"], ["V3", "V2", "V3"], ["V1", "V4", "V2"], ["V4", "V1"], ["V2", "V3", "V4", "V1"], ["V1", "V2", "V3", "V4"]]
    exe = build.bin_path("gendrv")
    for si, seq in enumerate(seqs):
        qp = os.path.join(root, "q%d.graphql" % si)
        proc = subprocess.Popen([exe, "serve"], stdin=subprocess.PIPE, stdout=subprocess.PIPE, stderr=subprocess.DEVNULL)
        try:
            for ci, vn in enumerate(seq):
                open(qp, "w").write(versions[vn][0])
                os.utime(qp, (1700000000 + 100 * ci, 1700000000 + 100 * ci))
                run.evaluated()
                run.count("rewritten-query-file-calls")
                case = {"id": "rw%d.%d" % (si, ci), "corpus": "clean", "mode": "rewritten-between-calls", "sequence": seq[:ci + 1], "versions": {k: v[0] for k, v in versions.items()},
                        "doc_text": versions[vn][0], "schema_text": stext, "schema_ext": "graphql", "options": {"mode": "cli"}}
                proc.stdin.write((json.dumps({"id": case["id"], "schema_path": sp, "query_path": qp, "options": {"mode": "cli"}, "want": ["inspect"]}) + "\n").encode())
                proc.stdin.flush()
                ready, _, _ = select.select([proc.stdout], [], [], 120)
                line = proc.stdout.readline() if ready else b""
                if not line:
                    run.inconclusive_case(case["id"], "driver gave no answer within 120 s (rc %s)" % proc.poll())
                    break
                resp = json.loads(line)
                if resp["outcome"] != "ok":
                    run.violation(case, "generation-%s after the query file was rewritten (%s): %s" % (resp["outcome"], " -> ".join(seq[:ci + 1]), (resp.get("message") or "")[:160]))
                    continue
                mods, order, _ = module_view(resp["inspect"])
                fits = []
                for cand in dict.fromkeys(seq[:ci + 1]):
                    text, ops = versions[cand]
                    if all(mv.get("QUERY") == text for mv in mods.values()) and sorted(mv.get("OPERATION_NAME") for mv in mods.values()) == sorted(ops) and all(
                            (mv.get("Variables") or []) == sorted(ops[mv["OPERATION_NAME"]][0]) and mv.get("ResponseData") == sorted(ops[mv["OPERATION_NAME"]][1]) for mv in mods.values()):
                        fits.append(cand)
                if not fits:
                    mv = mods.get(order[0], {}) if order else {}
                    run.violation(case, "call %d after %s: QUERY %r with OPERATION_NAME(s) %s, Variables %s, ResponseData %s - no single version of the file yields all four" % (
                        ci + 1, " -> ".join(seq[:ci + 1]), (mv.get("QUERY") or "")[:50], [m.get("OPERATION_NAME") for m in mods.values()], mv.get("Variables"), mv.get("ResponseData")))
                else:
                    run.held()
                    run.count("rewritten-call-consistent-with:" + ("current" if vn in fits else "earlier"))
                    run.nontrivial("rewritten", si, ci)
        finally:
            try:
                proc.stdin.close()
            except Exception:
                pass
            try:
                proc.wait(timeout=10)
            except Exception:
                proc.kill()


def main(run):
    run.rule = RULE
    run.assumptions = ["an explicit operation name that matches no operation in CLI / library form is not constrained by the statement (the code emits all operations); it is counted, not judged",
                       "documents the third-party parser rejects although they are valid GraphQL are counted as `parser-rejected` and not judged",
                       "cargo's rebuild-on-change is not observed; only the include_str! of the resolved query path is (derive event log)"]
    rng = run.rng
    work = os.path.join(build.BUILD, "work", "C05-%d" % run.seed)
    shutil.rmtree(work, ignore_errors=True)
    os.makedirs(work)
    n_docs = run.size(48, 1200)
    reqs, meta = [], {}
    compiled = []
    schema = None
    for di in range(n_docs):
        if di % 3 == 0:
            schema = gen_schema(rng)
            fmt, stext, ext = render_schema(schema, rng)
            sp = os.path.join(work, "s%d.%s" % (di, ext))
            open(sp, "w").write(stext)
        n_ops = rng.choice([1, 2, 2, 3, 5])
        doc = gen_doc(schema, rng, n_ops)
        plain, op_order = render_shuffled(doc, rng)
        style = rng.choice([None, None, None, "crlf", "lf", "tabs", "dense"])
        if di % 4 == 1:
            style = "crlf"      # every fourth document is a pure CR LF file (no lone CR): three of them end up in the compiled subset
        text = rerender(plain, rng, style)
        qp = os.path.join(work, "q%d.graphql" % di)
        with open(qp, "w", encoding="utf-8", newline="") as f:
            f.write(text)
        run.count("documents")
        if "#" in text or "\r" in text:
            run.count("with-comment-or-cr")
        base = {"doc": doc, "text": text, "op_order": op_order, "schema_path": sp, "schema_text": stext, "schema_ext": ext, "query_path": qp}

        def add(mode, opts, from_file, extra=None):
            rid = "d%d.%d" % (di, len(reqs))
            r = {"id": rid, "schema_path": sp, "options": opts, "want": ["inspect"]}
            if from_file:
                r["query_path"] = qp
            else:
                r["query_text"] = text
            reqs.append(r)
            m = dict(base, mode=mode, options=opts)
            m.update(extra or {})
            meta[rid] = m
        add("all-operations", {"mode": "cli"}, di % 2 == 0)
        for op in doc["operations"]:
            add("selected-operation", {"mode": "cli", "operation_name": op["name"]}, False, {"name": op["name"]})
            add("derive-exact", {"mode": "derive", "struct_name": op["name"]}, di % 2 == 1, {"name": op["name"]})
            cam = names.camel(op["name"])
            if cam != op["name"]:
                add("derive-normalized", {"mode": "derive", "struct_name": cam, "normalization": "rust"}, False, {"name": op["name"]})
                if not any(o["name"] == cam for o in doc["operations"]):
                    add("derive-needs-normalization", {"mode": "derive", "struct_name": cam}, False, {"name": op["name"]})
        # the library's `struct_name` option names the implementation target; it is not a selection: with no operation name,
        # CLI / library form still gives one module per operation, with one it gives that one
        add("all-operations", {"mode": "cli", "struct_name_only": doc["operations"][-1]["name"]}, di % 2 == 1, {"struct_name_set": True})
        if len(doc["operations"]) > 1:
            add("selected-operation", {"mode": "cli", "operation_name": doc["operations"][0]["name"], "struct_name_only": doc["operations"][-1]["name"]}, False,
                {"name": doc["operations"][0]["name"], "struct_name_set": True})
        add("selected-nonexistent", {"mode": "cli", "operation_name": "ZzNoSuchOperation"}, False)
        add("derive-no-match", {"mode": "derive", "struct_name": "ZzNoSuchOperation"}, False)
        add("derive-no-match", {"mode": "derive", "struct_name": "ZzNoSuchOperation", "normalization": "rust"}, False)
        add("derive-no-match", {"mode": "derive", "struct_name": doc["operations"][0]["name"] + "X"}, False)
        add("derive-no-match", {"mode": "derive", "struct_name": doc["operations"][0]["name"][:-1] or "Q"}, False)
        if text.startswith("\ufeff"):
            run.count("with-bom")
        # two operations whose names coincide under `normalization = "rust"` (`find_thing` / `FindThing`): whichever one a
        # derive selects, the name it reports and the types it generates must belong to the same operation
        if len(doc["operations"]) >= 2 and di % 3 == 0:
            d2 = {"operations": [dict(o) for o in doc["operations"]], "fragments": doc["fragments"]}
            a, b = d2["operations"][0], d2["operations"][1]
            a["name"], b["name"] = rng.choice([("find_thing", "FindThing"), ("FindThing", "find_thing"), ("findThing", "FindThing"), ("FindThing", "find_Thing")])
            plain2, order2 = render_shuffled(d2, rng)
            text2 = rerender(plain2, rng, rng.choice([None, "lf"]))
            for sname in ("FindThing",):
                rid = "d%d.c%d" % (di, len(reqs))
                reqs.append({"id": rid, "schema_path": sp, "query_text": text2, "options": {"mode": "derive", "struct_name": sname, "normalization": "rust"}, "want": ["inspect"]})
                meta[rid] = {"doc": d2, "text": text2, "op_order": order2, "schema_path": sp, "schema_text": stext, "schema_ext": ext, "mode": "derive-colliding-names",
                             "options": reqs[-1]["options"], "name": None}
        if len(compiled) < run.size(12, 120) and not any(names.snake(o["name"]) == o["name"] for o in doc["operations"]):
            compiled.append((di, schema, doc, text, fmt, stext, ext))
    # empty documents in derive mode
    for i, t in enumerate(["", "# only a comment\n", "fragment F on Query { __typename }\n"]):
        rid = "empty%d" % i
        reqs.append({"id": rid, "schema_path": sp, "query_text": t, "options": {"mode": "derive", "struct_name": "Anything"}, "want": ["inspect"]})
        meta[rid] = {"mode": "derive-empty", "text": t, "doc": {"operations": [], "fragments": []}, "op_order": [], "schema_path": sp, "schema_text": stext, "schema_ext": ext, "options": reqs[-1]["options"]}
    resps = run_gendrv_parallel(reqs)
    # a document that no request at all gets through (the parser refuses the text) is not this property's business: whether a
    # text is accepted is C02's. Decided by outcomes, not by the wording of the error
    some_ok = {}
    for req, resp in zip(reqs, resps):
        some_ok[meta[req["id"]]["text"]] = some_ok.get(meta[req["id"]]["text"], False) or resp["outcome"] == "ok"
    for req, resp in zip(reqs, resps):
        m = meta[req["id"]]
        mode = m["mode"]
        doc = m["doc"]
        run.evaluated()
        run.count("mode:" + mode)
        case = {"id": req["id"], "corpus": "clean", "mode": mode, "options": m["options"], "doc_text": m["text"], "schema_text": m["schema_text"], "schema_ext": m["schema_ext"]}
        ops = {o["name"]: o for o in doc["operations"]}
        sym = None
        if mode in ("derive-no-match", "derive-needs-normalization", "derive-empty"):
            if resp["outcome"] == "ok":
                mods, order, _ = module_view(resp["inspect"])
                sym = "struct name %r matches no operation, yet code was generated for %s" % (m["options"].get("struct_name"), [v.get("OPERATION_NAME") for v in mods.values()])
            elif resp["outcome"] == "err" and mode != "derive-empty":
                msg = resp.get("message") or ""
                if not some_ok.get(m["text"]):
                    run.count("document-rejected-as-a-whole")
                    continue
                missing = [n for n in ops if n not in msg]
                if missing:
                    sym = "the error does not name every available operation (missing %s): %s" % (missing, msg[:200])
            elif resp["outcome"] not in ("err", "panic"):
                sym = "driver crash: %s" % (resp.get("message") or "")[:200]
        else:
            if resp["outcome"] != "ok":
                msg = resp.get("message") or ""
                if not some_ok.get(m["text"]):
                    run.count("document-rejected-as-a-whole")
                    continue
                sym = "generation-%s in mode %s: %s" % (resp["outcome"], mode, msg[:200])
            else:
                mods, order, structs = module_view(resp["inspect"])
                if mode in ("all-operations", "selected-nonexistent"):
                    want = list(m["op_order"])
                    if mode == "selected-nonexistent":
                        run.count("unconstrained:nonexistent-name-gives-%s" % ("all" if len(order) == len(want) else len(order)))
                        want = None
                elif mode == "derive-colliding-names":
                    want = None     # either of the colliding operations may be selected; it must be ONE, consistently
                    if len(order) != 1:
                        sym = "derive generated %d modules" % len(order)
                else:
                    want = [m["name"]]
                got = [mods[k].get("OPERATION_NAME") for k in order]
                if sym is None and want is not None and got != want:
                    sym = "mode %s: modules for operations %s, expected %s" % (mode, got, want)
                elif sym is None:
                    for k in order:
                        mv = mods[k]
                        run.count("query-bytes-compared")
                        if mv.get("QUERY") != m["text"]:
                            a, b = mv.get("QUERY") or "", m["text"]
                            i = next((i for i, (x, y) in enumerate(zip(a, b)) if x != y), min(len(a), len(b)))
                            sym = "QUERY differs from the document text at byte offset ~%d: %r vs %r" % (i, a[max(0, i - 15):i + 15], b[max(0, i - 15):i + 15])
                            break
                        op = ops.get(mv.get("OPERATION_NAME"))
                        if op is None:
                            sym = "OPERATION_NAME %r is not an operation of the document" % mv.get("OPERATION_NAME")
                            break
                        # provenance: the module's types come from that very operation
                        spreads = len([it for it in op["sel"] if it[0] == "spread"])
                        if "ResponseData" in mv and (mv["ResponseData"] != expected_keys(op) or mv.get("ResponseData_flatten", 0) != spreads):
                            sym = "module %s: ResponseData keys %s (+%s spreads), operation %s selects %s (+%s)" % (k, mv["ResponseData"], mv.get("ResponseData_flatten"), op["name"], expected_keys(op), spreads)
                            break
                        if mv.get("Variables", []) != sorted(v["name"] for v in op.get("vars", [])):
                            sym = "module %s: Variables keys %s, operation %s declares %s" % (k, mv.get("Variables"), op["name"], sorted(v["name"] for v in op.get("vars", [])))
                            break
                    if not sym and mode.startswith("derive") and structs:
                        sym = "derive mode emitted a struct declaration %s" % structs
                    if not sym and mode in ("all-operations", "selected-operation") and len(structs) != len(order) and not m.get("struct_name_set"):
                        sym = "CLI mode: %d struct declarations for %d modules" % (len(structs), len(order))
        if sym:
            run.violation(case, sym)
        else:
            run.held()
            if len(doc["operations"]) >= 2 or "#" in m["text"] or "\r" in m["text"] or '"' in m["text"]:
                run.nontrivial(m["text"], mode, m["options"].get("struct_name") or m["options"].get("operation_name"))
            if run.held_n % 150 == 1:
                run.sample({"mode": mode, "options": m["options"], "document_text": m["text"][:400], "outcome": resp["outcome"], "message": (resp.get("message") or "")[:200]}, limit=6)
    path_spellings(run, work)
    rewritten_between_calls(run, work)
    cli_file_names(run, work)
    compiled_part(run, compiled, work)
    shutil.rmtree(work, ignore_errors=True)
    return run.finish(floor=FLOOR if run.tier == "quick" else {k: (v * 10 if k not in ("path-spellings", "cli-file-name-cases", "rewritten-query-file-calls") else v) for k, v in FLOOR.items()})     # (the path-spelling set is fixed)


def compiled_part(run, compiled, work):
    """(1) library form compiled: to_value(build_query(v)) has exactly variables / query / operationName with the right values;
    (2) real derives: struct named after an operation compiles and reports that operation; a struct matching no operation is a
    compile error naming the available operations"""
    rng = run.rng
    cases = []
    for (di, schema, doc, text, fmt, stext, ext) in compiled:
        c = C.make_case("k%d" % di, schema, doc, rng, options={}, fmt=fmt, doc_text=text)
        c["schema_text"], c["schema_ext"] = stext, ext
        vg = ValueGen(schema, rng, max_depth=2)
        vecs = []
        for op in doc["operations"]:
            try:
                asg = {}
                for var in op.get("vars", []):
                    asg[var["name"]] = vg.value(var["type"], 0, "all-some")
            except RecursionError:
                continue
            # an operation without variables has the unit struct `Variables`, which serde reads from null
            vecs.append({"id": op["name"], "kind": "vars", "target": op["name"], "input": asg if op.get("vars") else None, "expect": {}})
        c["vectors"] = vecs
        cases.append(c)
    fac = Factory("C05-lib-%d" % run.seed)
    gen, verdict, obs = fac.run(cases)
    for c in cases:
        o = obs.get(c["id"])
        if gen[c["id"]]["outcome"] != "ok" or verdict.get(c["id"]) != "accepted" or o is None or o.get("exit") != 0:
            run.inconclusive_case(c["id"], "compiled C05 case did not build / run: %s %s" % (gen[c["id"]].get("message", "")[:100], verdict.get(c["id"])))
            continue
        for vec in c["vectors"]:
            ob = o["obs"].get(vec["id"])
            run.evaluated()
            run.count("compiled-bodies")
            sym = None
            if ob is None or not ob.get("ok"):
                sym = "assignment not accepted: %s" % (ob and ob.get("err"))
            else:
                b = ob["body"]
                if not isinstance(b, dict) or sorted(b.keys()) != ["operationName", "query", "variables"]:
                    sym = "body members %s" % (sorted(b.keys()) if isinstance(b, dict) else b)
                elif b["query"] != c["doc_text"]:
                    sym = "body.query differs from the document text"
                elif b["operationName"] != vec["target"]:
                    sym = "body.operationName %r for operation %r" % (b["operationName"], vec["target"])
            if sym:
                one = dict(c)
                one["vectors"] = [vec]
                run.violation(one, sym, {"observed": ob})
            else:
                run.held()
    fac.cleanup()
    # real derives
    fac = Factory("C05-derive-%d" % run.seed)
    log = os.path.join(fac.work, "derive.log")
    fac.extra_env = {"GRAPHQL_CLIENT_VERIF_LOG": log}
    dcases, files, expect = [], {}, {}
    for (di, schema, doc, text, fmt, stext, ext) in compiled:
        for variant in ("match", "no-match"):
            cid = "r%d%s" % (di, "m" if variant == "match" else "n")
            c = C.make_case(cid, schema, doc, rng, options={"mode": "derive"}, fmt=fmt, doc_text=text)
            c["schema_text"], c["schema_ext"] = stext, ext
            if variant == "no-match":
                d2 = {"operations": [{"name": "ZzNoSuchOperation"}], "fragments": []}
                c2 = dict(c, doc_model=d2)
            else:
                c2 = c
            c["variant"] = variant
            dcases.append(c)
            expect[cid] = variant
            files[cid] = (c, c2)
    from ..factory import gendrv_request
    for c in dcases:
        gendrv_request(c, fac.work)   # writes the input files
    srcs = {}
    ind = os.path.join(fac.work, "in")
    for cid, (c, c2) in files.items():
        sp = [f for f in os.listdir(ind) if f.startswith(cid + ".schema.")][0]
        srcs[cid] = support_code(c) + derive_source(c2, "../in/" + sp, "../in/" + cid + ".query.graphql")
    fake_gen = {c["id"]: {"outcome": "ok"} for c in dcases}
    verdict = fac.compile(dcases, fake_gen, check_only=True, files=srcs)
    entries = []
    if os.path.exists(log):
        for line in open(log):
            try:
                e = json.loads(line)
                if e.get("stage") != "returned":      # the hook's second line per invocation (what the macro hands back) is C18's
                    entries.append(e)
            except ValueError:
                pass
    for c in dcases:
        cid = c["id"]
        v = verdict.get(cid)
        run.evaluated()
        ops = [o["name"] for o in c["doc_model"]["operations"]]
        if expect[cid] == "match":
            run.count("real-derives-match")
            if v == "inconclusive":
                run.inconclusive_case(cid, "derive crate did not build: %s" % (fac.unattributed[:1],))
            elif v != "accepted":
                run.violation(c, "real derive with matching struct names rejected: %s %s" % (v.get("code"), v.get("message")))
            else:
                mine = [e for e in entries if (e.get("query_path") or "").endswith("/%s.query.graphql" % cid)]
                bad = None
                for e in mine:
                    if e.get("outcome") != "tokens" or ('OPERATION_NAME:&str="%s"' % e["struct"]) not in "".join(e.get("text", "").split()):
                        bad = "derive for struct %s did not produce the module of operation %s" % (e.get("struct"), e.get("struct"))
                    import re as _re
                    squashed = _re.sub(r"\s+", "", e.get("text", ""))   # rustc's token printer and proc-macro2's differ in spacing only
                    if e.get("options", {}).get("query_file") != e.get("query_path") or ("include_str!(%s)" % json.dumps(e.get("query_path"))) not in squashed:
                        bad = "derive output lacks the include_str! of the resolved query path"
                if len(mine) != len(ops):
                    bad = "expected %d logged derive invocations, saw %d" % (len(ops), len(mine))
                if bad:
                    run.violation(c, bad)
                else:
                    run.held()
        else:
            run.count("real-derives-no-match")
            if v == "accepted":
                run.violation(c, "real derive with a struct name matching no operation compiled")
            elif v == "inconclusive":
                run.inconclusive_case(cid, "derive crate failed without attribution: %s" % (fac.unattributed[:1],))
            else:
                msg = v.get("message") or ""
                if any(o not in msg for o in ops):      # (the wording is free; naming every operation is what the statement asks for)
                    run.violation(c, "derive error does not list the available operations: %s" % msg[:300])
                else:
                    run.held()
    fac.cleanup()


def replay(run, rec):
    c = rec["case"]
    work = os.path.join(build.BUILD, "work", "C05-replay")
    os.makedirs(work, exist_ok=True)
    sp = os.path.join(work, "s." + (c.get("schema_ext") or "graphql"))
    open(sp, "w").write(c["schema_text"])
    from ..factory import run_gendrv
    resp = run_gendrv([{"id": "r", "schema_path": sp, "query_text": c["doc_text"], "options": c.get("options", {}), "want": ["inspect"]}])[0]
    print(resp["outcome"], (resp.get("message") or "")[:300])
    if resp["outcome"] == "ok":
        mods, order, structs = module_view(resp["inspect"])
        print({k: {"OPERATION_NAME": v.get("OPERATION_NAME"), "QUERY_equal": v.get("QUERY") == c["doc_text"]} for k, v in mods.items()})
    run.evaluated()
    run.held()
    return run.finish()
