"""C14 - deprecation strategies allow / warn / deny do exactly what is documented.
Monitor: attributes and field lists in the emitted token stream (syn summary) for every strategy,
plus deserialisation of payloads that still carry the deprecated keys under `deny` in compiled
consumer code; oracle: per-field expectation computed from the schema model and the strategy."""
import json
import os
import shutil
from collections import Counter

from .. import build
from .. import cases as C
from ..factory import run_gendrv_parallel, Factory
from ..gen_schema import gen_schema
from ..gen_query import gen_document, reachable_fragments
from ..model import render_document, frag_map, Schema
from ..cases import render_schema
from . import c01

RULE = ("schemas with random deprecated subsets of object and interface fields (no reason / plain / quotes and backslashes / "
        "newlines / non-ASCII / empty / block strings; SDL directive and JSON isDeprecated renderings) x clean documents selecting "
        "them directly, through fragments, in variants and under aliases x strategy {allow, warn, deny, unset}. Every emitted "
        "response field is matched to its schema field through its wire key (field and alias names are globally unique in these "
        "schemas): allow -> no attribute; warn / unset -> #[deprecated] iff the schema field is deprecated, note == reason "
        "verbatim iff a reason exists; deny -> emitted key multiset == selected keys minus the deprecated ones. Under deny, cases "
        "are also compiled (every third one in derive form: the strategy comes from the attribute, items in varying order) and fed conforming payloads that still contain the deprecated keys. Non-trivial = case whose document "
        "selects >= 1 deprecated field; distinct by (schema, document, strategy). In every second schema an implementing object's "
        "copy of an interface field differs from the interface's declaration in deprecation (deprecated on one side only, or with "
        "another reason): each selection follows the declaration in whose scope it stands. In every second JSON schema half of "
        "the fields that are NOT deprecated carry a non-null deprecationReason (\"\", \"n/a\", a text): isDeprecated decides")

STRATEGIES = [("allow", "allow"), ("warn", "warn"), ("deny", "deny"), ("unset", None)]
FLOOR = {"fields-checked": 3000, "deprecated-fields-checked": 300, "with-reason": 100, "without-reason": 20, "deny-omitted": 80, "deny-payloads": 100, "declaration-specific-deprecation": 10, "deny-derive-delivery": 5}


def field_items(doc, op):
    """every field item of an operation's module: the operation's own selection and each reachable fragment once"""
    frags = frag_map(doc)
    out = []

    def rec(items):
        for it in items:
            if it[0] == "field":
                out.append(it)
                if it[4]:
                    rec(it[4])
            elif it[0] == "inline":
                rec(it[2])
    rec(op["sel"])
    for fn in sorted(reachable_fragments([op], frags)):
        rec(frags[fn]["sel"])
    return out


def scoped_field_items(schema, doc, op):
    """[(field item, type whose selection set holds it)] for an operation's module: the operation's own selection and
    each reachable fragment once. Deprecation belongs to a declaration: the same field name may be deprecated on an
    interface and not on an implementing object (or the other way round)."""
    from ..model import base, root_type
    frags = frag_map(doc)
    out = []

    def rec(items, scope):
        for it in items:
            if it[0] == "field":
                out.append((it, scope))
                if it[4]:
                    f = schema.field(scope, it[2])
                    if f is not None:
                        rec(it[4], base(f["type"]))
            elif it[0] == "inline":
                rec(it[2], it[1])
    rec(op["sel"], root_type(schema, op))
    for fn in sorted(reachable_fragments([op], frags)):
        rec(frags[fn]["sel"], frags[fn]["on"])
    return out


def deprecation_at(schema, scope, fname):
    f = schema.field(scope, fname)
    return f.get("deprecated") if f else None


def deprecation_of(schema, fname):
    for n in schema.order:
        for f in schema.types[n].get("fields", []):
            if isinstance(f, dict) and f["name"] == fname:
                return f.get("deprecated")
    return None



def stale_reasons(text, seen):
    """introspection JSON in which every second non-deprecated object / interface field carries a non-null deprecationReason"""
    d = json.loads(text)
    n = [0]

    def walk(x):
        if isinstance(x, dict):
            if x.get("isDeprecated") is False and "type" in x and "args" in x:
                n[0] += 1
                if n[0] % 2:
                    x["deprecationReason"] = ["", "n/a", "No longer supported"][n[0] % 3]
            for v in x.values():
                walk(v)
        elif isinstance(x, list):
            for v in x:
                walk(v)
    walk(d)
    seen.append(n[0])
    return json.dumps(d)

def main(run):
    run.rule = RULE
    run.assumptions = ["response key -> schema field is a function in the generated schemas (globally unique field and alias names)",
                       "`unset` means the library default, documented as warn"]
    rng = run.rng
    n_schemas = run.size(40, 1200)
    work = os.path.join(build.BUILD, "work", "C14-%d" % run.seed)
    shutil.rmtree(work, ignore_errors=True)
    os.makedirs(work)
    reqs, meta = [], {}
    deny_cases = []
    stale_seen = []
    for si in range(n_schemas):
        schema = gen_schema(rng, deprecations=0.4, odd_type_names=(si % 4 == 0), own_deprecation=0.5 if si % 2 else 0.0)
        fmt, text, ext = render_schema(schema, rng)
        if ext == "json" and len(stale_seen) % 2 == 0:
            # servers that answer deprecationReason "" (or a leftover text) for fields that are NOT deprecated: isDeprecated
            # decides, such a field is neither marked nor omitted (C14-r10m1). No rng draw: the other streams stay as they were
            text = stale_reasons(text, stale_seen)
            run.count("json-stale-deprecation-reason")
        elif ext == "json":
            stale_seen.append(0)
        sp = os.path.join(work, "s%d.%s" % (si, ext))
        open(sp, "w").write(text)
        for di in range(3):
            doc, feats = gen_document(schema, rng)
            dtext = render_document(doc)
            for sname, sval in STRATEGIES:
                rid = "s%d.d%d.%s" % (si, di, sname)
                opts = {"mode": "cli"}
                if sval:
                    opts["deprecation"] = sval
                if rng.random() < 0.3:
                    opts["normalization"] = "rust"
                reqs.append({"id": rid, "schema_path": sp, "query_text": dtext, "options": opts, "want": ["inspect"]})
                meta[rid] = {"schema": schema, "doc": doc, "strategy": sname, "doc_text": dtext, "schema_text": text, "schema_ext": ext, "fmt": fmt, "options": opts}
            if len(deny_cases) < run.size(30, 300) and rng.random() < 0.5:
                c = C.make_case("d%d_%d" % (si, di), schema, doc, rng, options={"deprecation": "deny", "other_variant": rng.random() < 0.3, "skip_none": rng.random() < 0.5}, fmt=fmt, features=feats)
                if len(deny_cases) % 3 == 2:
                    c["options"]["skip_none"] = True
                    c["attr_focus"] = "deprecated"
                    c["attr_mode"] = len(deny_cases) // 3
                    c["delivery"] = "derive"      # the strategy arrives through the derive attribute (items in a per-case order)
                    run.count("deny-derive-delivery")
                vecs, stats = C.resp_vectors(c, rng, n_payloads=6, drop_deprecated=True)
                c["vectors"] = vecs
                c["payload_stats"] = stats
                deny_cases.append(c)
    resps = run_gendrv_parallel(reqs)
    for req, resp in zip(reqs, resps):
        m = meta[req["id"]]
        schema, doc, strat = m["schema"], m["doc"], m["strategy"]
        case = {"id": req["id"], "corpus": "clean", "strategy": strat, "doc_text": m["doc_text"], "schema_text": m["schema_text"],
                "schema_ext": m["schema_ext"], "options": m["options"]}
        if resp["outcome"] != "ok":
            run.violation(case, "generation-%s under %s: %s" % (resp["outcome"], strat, (resp.get("message") or "")[:200]))
            continue
        items = resp["inspect"]["items"]
        mods = {}
        for it in items:
            if it["kind"] == "const" and it["name"] == "OPERATION_NAME":
                mods[it["path"][0]] = it["value"]
        inputs = set(schema.of_kind("input"))
        any_dep = False
        problems = []
        for mod, opname in mods.items():
            op = next(o for o in doc["operations"] if o["name"] == opname)
            fis = scoped_field_items(schema, doc, op)
            key_field = {}
            key_deps = {}
            for it, scope in fis:
                key_field[it[1] or it[2]] = it[2]
            expected = Counter()
            for it, scope in fis:
                dep = deprecation_at(schema, scope, it[2])
                key_deps.setdefault(it[1] or it[2], []).append(dep)
                if dep is not None:
                    any_dep = True
                if strat == "deny" and dep is not None:
                    run.count("deny-omitted")
                    continue
                expected[it[1] or it[2]] += 1
            # a key selected both in an interface's scope and in an implementing object's, with different deprecation on the
            # two declarations: which emitted field is which cannot be told from the key alone (the multiset still is exact)
            ambiguous = {k for k, ds in key_deps.items() if any(d != ds[0] for d in ds)}
            emitted = Counter()
            for it in items:
                if it["kind"] != "struct" or it["path"] != [mod] or it["name"] == "Variables":
                    continue
                if it["name"] in inputs or any(it["name"].lower() == i.replace("_", "").lower() for i in inputs):
                    continue
                for f in it["fields"]:
                    if f["serde"].get("flatten"):
                        continue
                    key = f["key"]
                    emitted[key] += 1
                    run.evaluated()
                    run.count("fields-checked")
                    if key not in key_field:
                        problems.append("emitted field with key %s that the document does not select (struct %s)" % (key, it["name"]))
                        continue
                    if key in ambiguous:
                        run.count("ambiguous-key-skipped")
                        continue
                    dep = key_deps[key][0]
                    if dep != deprecation_of(schema, key_field[key]):
                        run.count("declaration-specific-deprecation")
                    attr = f.get("deprecated")
                    if dep is not None:
                        run.count("deprecated-fields-checked")
                    if strat == "allow":
                        if attr is not None:
                            problems.append("allow: #[deprecated] on %s" % key)
                    elif strat in ("warn", "unset"):
                        if dep is None and attr is not None:
                            problems.append("%s: non-deprecated field %s marked #[deprecated]" % (strat, key))
                        elif dep is not None and attr is None:
                            problems.append("%s: deprecated field %s not marked" % (strat, key))
                        elif dep is not None:
                            if dep.get("reason") is None:
                                run.count("without-reason")
                                if attr.get("note") is not None:
                                    problems.append("%s: note %r invented for reason-less deprecation of %s" % (strat, attr.get("note"), key))
                            else:
                                run.count("with-reason")
                                if attr.get("note") != dep["reason"]:
                                    problems.append("%s: note %r != reason %r on %s" % (strat, attr.get("note"), dep["reason"], key))
                    elif strat == "deny":
                        if attr is not None:
                            problems.append("deny: #[deprecated] attribute on %s" % key)
                        if dep is not None:
                            problems.append("deny: deprecated field %s still emitted" % key)
            if emitted != expected:
                missing = expected - emitted
                extra = emitted - expected
                problems.append("%s: field multiset differs: missing %s extra %s" % (strat, dict(missing), dict(extra)))
        if problems:
            run.violation(case, problems[0], {"all": problems[:10]})
        else:
            run.held()
            if any_dep:
                run.nontrivial(m["schema_text"], m["doc_text"], strat)
            if any_dep and run.held_n % 60 == 1:
                run.sample({"strategy": strat, "document": m["doc_text"][:500], "schema_format": m["fmt"],
                            "deprecated_selected": sorted({it[2] for op in doc["operations"] for it in field_items(doc, op) if deprecation_of(schema, it[2]) is not None})[:8]}, limit=5)
    shutil.rmtree(work, ignore_errors=True)
    # compiled part: deny must still deserialise payloads that contain the deprecated keys
    if deny_cases:
        before = run.evaluations
        c01.execute(run, deny_cases, tag="deny")
        run.count("deny-payloads", run.evaluations - before)
    return run.finish(floor=FLOOR if run.tier == "quick" else {k: v * 15 for k, v in FLOOR.items()})


def replay(run, rec):
    c = rec["case"]
    if c.get("vectors"):
        c01.execute(run, [c], tag="replay")
        return run.finish()
    print("inspect-level case: re-run the check with VERIF_SEED=%d to reproduce" % rec.get("seed", 0))
    return main(run)
