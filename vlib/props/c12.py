"""C12 - recursive input types and fragments get finite-size Rust types.
Monitors: rustc's verdict (E0072 or any error) on the emitted types for every input-type graph,
a by-value containment-graph pre-screen on the syn summary (validated against rustc on every
run), and JSON round trips of recursive values / payloads through the compiled code (the
indirection must be invisible)."""
import itertools
import json
import re

from .. import cases as C
from ..factory import Factory, run_gendrv_parallel, gendrv_request
from ..gen_vars import ValueGen, expected_variables, strict_same
from ..model import Schema, T, L, NN, is_nn
from .. import hazards

RULE = ("all directed graphs on 1 and 2 input object types with edge kind in {none, T, T!, [T], [T!]!} per ordered pair (self edges "
        "included) and @oneOf on/off per type (nullable kinds only for @oneOf members): 1164 graphs, enumerated completely; random "
        "graphs on 3-4 types (also [[T]] and [T]! edges); every graph is generated, pre-screened (by-value containment graph of "
        "the emitted structs / enums must be acyclic; edges through Option, not through Box / Vec) and compiled by rustc; "
        "inhabited graphs get depth-3 recursive values that must round-trip unchanged. Fragment recursion patterns through "
        "object fields: self via field / list field, alias form and flatten form, mutual A->B->A, 3-cycles, recursion under an "
        "inline fragment and through a union, every ordered pair (and some triples) of recursive positions {field, list field, list of "
        "lists, field one object down} inside one fragment, with nested payloads. Input type names in four styles (A, node_filter, "
        "HTTPFilter, edgeInput) with and without normalization rust and skip_serializing_none. Non-trivial = graph with >= 1 cycle; distinct by graph")

KINDS = {"none": None, "T": lambda t: t, "T!": lambda t: NN(t), "[T]": lambda t: L(t), "[T!]!": lambda t: NN(L(NN(t)))}
NULLABLE_KINDS = ["none", "T", "[T]"]
EXTRA_KINDS = {"[[T]]": lambda t: L(L(t)), "[T]!": lambda t: NN(L(t)), "[T!]": lambda t: L(NN(t))}
FLOOR = {"graphs": 1164, "graphs-with-cycle": 500, "rustc-accepted": 1100, "round-trips": 300, "fragment-patterns": 55, "prescreen-agrees": 1100}


def graph_schema(names_, edges, one_of):
    """edges: {(src, dst): kind}"""
    s = Schema()
    for n in names_:
        s.add(n, {"kind": "input", "one_of": one_of[n], "fields": [["x", T("Int")]]})
    allk = dict(KINDS)
    allk.update(EXTRA_KINDS)
    for (a, b), k in sorted(edges.items()):
        if k == "none":
            continue
        s.types[a]["fields"].append(["to_%s" % b.lower(), allk[k](T(b))])
    s.add("Query", {"kind": "object", "implements": [], "fields": [{"name": "x", "type": T("Int"), "args": [], "deprecated": None}]})
    return s


def enumerate_graphs():
    out = []
    for n in (1, 2):
        ns = ["A", "B"][:n]
        pairs = [(a, b) for a in ns for b in ns]
        for oo in itertools.product([False, True], repeat=n):
            one = dict(zip(ns, oo))
            choices = [NULLABLE_KINDS if one[a] else list(KINDS) for (a, b) in pairs]
            for combo in itertools.product(*choices):
                out.append((ns, dict(zip(pairs, combo)), one))
    return out


def has_cycle(ns, edges):
    adj = {n: [b for (a, b), k in edges.items() if a == n and k != "none"] for n in ns}
    for start in ns:
        seen, stack = set(), list(adj[start])
        while stack:
            x = stack.pop()
            if x == start:
                return True
            if x not in seen:
                seen.add(x)
                stack += adj[x]
    return False


def needs_indirection(ns, edges):
    """reference: is there a cycle made only of edges that are not lists (T or T!)?"""
    adj = {n: [b for (a, b), k in edges.items() if a == n and k in ("T", "T!")] for n in ns}
    for start in ns:
        seen, stack = set(), list(adj[start])
        while stack:
            x = stack.pop()
            if x == start:
                return True
            if x not in seen:
                seen.add(x)
                stack += adj[x]
    return False


def prescreen(inspect):
    """by-value containment graph over the emitted items; returns a cycle (list of names) or None"""
    items = [it for it in inspect.get("items", []) if it["kind"] in ("struct", "enum", "alias")]
    names_ = {it["name"] for it in items}
    adj = {}

    def by_value_refs(ty):
        # strip everything behind Box< or Vec<
        out = []
        depth_stack = []
        i = 0
        toks = re.findall(r"[A-Za-z_][A-Za-z0-9_]*|<|>|,", ty)
        blocked = 0
        stack = []
        for t in toks:
            if t == "<":
                continue
            if t == ">":
                if stack:
                    if stack.pop():
                        blocked -= 1
                continue
            if t == ",":
                continue
            if t in ("Box", "Vec"):
                stack.append(True)
                blocked += 1
            elif t == "Option":
                stack.append(False)
            else:
                if blocked == 0 and t in names_:
                    out.append(t)
        return out
    for it in items:
        refs = []
        if it["kind"] == "struct":
            for f in it["fields"]:
                refs += by_value_refs(f["type"])
        elif it["kind"] == "enum":
            for v in it["variants"]:
                for p in v["payload"]:
                    refs += by_value_refs(p)
        else:
            refs += by_value_refs(it["target"])
        adj[it["name"]] = refs
    color = {}

    def dfs(n, path):
        color[n] = 1
        for m in adj.get(n, []):
            if color.get(m) == 1:
                return path + [n, m]
            if m not in color:
                r = dfs(m, path + [n])
                if r:
                    return r
        color[n] = 2
        return None
    for n in adj:
        if n not in color:
            r = dfs(n, [])
            if r:
                return r
    return None


NAME_STYLES = [None, {"A": "node_filter", "B": "edge_filter", "C": "page_input", "D": "sort_by"}, {"A": "HTTPFilter", "B": "IDInput", "C": "SMSOpts", "D": "URLSet"},
               {"A": "nodeFilter", "B": "edgeInput", "C": "pageOpts", "D": "sortBy"}]


def graph_case(cid, ns, edges, one, rng, fmt="sdl", style=0, rust=False, skip=False):
    if NAME_STYLES[style]:
        m = NAME_STYLES[style]
        ns = [m[n] for n in ns]
        edges = {(m[a], m[b]): k for (a, b), k in edges.items()}
        one = {m[n]: v for n, v in one.items()}
    s = graph_schema(ns, edges, one)
    vs = [{"name": "v_" + n.lower(), "type": T(n), "default": None} for n in ns]
    if len(ns) >= 2 and sum(ord(ch) for ch in cid) % 2 == 0:
        # only the first type is a variable: the others are reached through its fields only
        vs = vs[:1]
    doc = {"operations": [{"kind": "query", "name": "Q", "vars": vs, "sel": [["field", None, "x", None, None]]}], "fragments": []}
    gopts = {"normalization": "rust"} if rust else {}
    if skip:
        gopts["skip_none"] = True      # the indirection must not change which members are omitted
    c = C.make_case(cid, s, doc, rng, options=gopts, fmt=fmt)
    c["graph"] = {"types": ns, "edges": {"%s->%s" % k: v for k, v in edges.items() if v != "none"}, "one_of": [n for n in ns if one[n]]}
    c["cyclic"] = has_cycle(ns, edges)
    c["needs_box"] = needs_indirection(ns, edges)
    vg = ValueGen(s, rng, max_depth=3)
    vecs = []
    for ai, mode in enumerate(["all-some", None, None]):
        try:
            asg = {v["name"]: vg.value(v["type"], 0, mode) for v in vs}
        except RecursionError:
            continue   # uninhabited (non-null cycle without a list): legal to declare, no value exists
        asg = {k: v for k, v in asg.items() if v is not None}
        vecs.append({"id": "a%d" % ai, "kind": "vars", "target": "Q", "input": asg, "expect": {"variables": expected_variables(s, doc["operations"][0], asg, skip)}})
    c["vectors"] = vecs
    return c


def obj(name, fields, implements=()):
    return {"kind": "object", "implements": list(implements), "fields": [{"name": n, "type": t, "args": [], "deprecated": None} for n, t in fields]}


def fragment_patterns(rng):
    s = Schema()
    s.add("I", {"kind": "interface", "fields": [{"name": "i", "type": T("I"), "args": [], "deprecated": None}, {"name": "id", "type": NN(T("ID")), "args": [], "deprecated": None}]})
    s.add("TT", obj("TT", [("i", T("I")), ("id", NN(T("ID"))), ("t", T("TT")), ("ts", L(NN(T("TT")))), ("tss", L(L(T("TT")))), ("u", T("U")), ("o", T("OO")), ("name", T("String"))], ["I"]))
    s.add("OO", obj("OO", [("t", T("TT")), ("o", T("OO")), ("third", T("Third")), ("k", T("Int"))]))
    s.add("Third", obj("Third", [("t", T("TT")), ("z", T("Float"))]))
    s.add("U", {"kind": "union", "members": ["TT", "OO"]})
    s.add("Query", obj("Query", [("t", T("TT")), ("u", T("U")), ("i", T("I"))]))

    def f(name, sub=None, alias=None):
        return ["field", alias, name, None, sub]
    P = []
    P.append(("self-via-field alias-form", [f("t", [["spread", "F"]])], [{"name": "F", "on": "TT", "sel": [f("id"), f("t", [["spread", "F"]])]}]))
    P.append(("self-via-field flatten-form", [f("t", [["spread", "F"]])], [{"name": "F", "on": "TT", "sel": [f("id"), f("t", [f("name"), ["spread", "F"]])]}]))
    P.append(("self-via-list", [f("t", [["spread", "F"]])], [{"name": "F", "on": "TT", "sel": [f("id"), f("ts", [["spread", "F"]]), f("tss", [f("name"), ["spread", "F"]])]}]))
    P.append(("mutual A->B->A", [f("t", [["spread", "A"]])], [{"name": "A", "on": "TT", "sel": [f("id"), f("o", [["spread", "B"]])]}, {"name": "B", "on": "OO", "sel": [f("k"), f("t", [["spread", "A"]])]}]))
    P.append(("mutual flatten", [f("t", [f("name"), ["spread", "A"]])], [{"name": "A", "on": "TT", "sel": [f("id"), f("o", [f("k"), ["spread", "B"]])]}, {"name": "B", "on": "OO", "sel": [f("o", [f("k")]), f("t", [f("name"), ["spread", "A"]])]}]))
    P.append(("three-cycle", [f("t", [["spread", "A"]])], [{"name": "A", "on": "TT", "sel": [f("id"), f("o", [["spread", "B"]])]}, {"name": "B", "on": "OO", "sel": [f("k"), f("third", [["spread", "C"]])]},
                                                       {"name": "C", "on": "Third", "sel": [f("z"), f("t", [["spread", "A"]])]}]))
    P.append(("under-inline-fragment", [f("u", [["typename"], ["inline", "TT", [["spread", "F"]]]])], [{"name": "F", "on": "TT", "sel": [f("id"), f("u", [["typename"], ["inline", "TT", [["spread", "F"]]], ["inline", "OO", [f("k")]]])]}]))
    P.append(("through-union-spread", [f("u", [["typename"], ["spread", "F"]])], [{"name": "F", "on": "TT", "sel": [f("id"), f("u", [["typename"], ["spread", "F"], ["inline", "OO", [f("k")]]])]}]))
    P.append(("interface-recursion", [f("i", [["spread", "IF"]])], [{"name": "IF", "on": "I", "sel": [["typename"], f("id"), f("i", [["spread", "IF"]])]}]))
    P.append(("two-recursive-spreads", [f("t", [["spread", "F"], ["spread", "G"]])], [{"name": "F", "on": "TT", "sel": [f("id"), f("t", [["spread", "F"]])]}, {"name": "G", "on": "TT", "sel": [f("name"), f("ts", [["spread", "G"]])]}]))
    P.append(("self-spread-under-same-field-twice", [f("t", [["spread", "F"]])], [{"name": "F", "on": "TT", "sel": [f("id"), f("t", [["spread", "F"]]), f("t", [["spread", "F"]], alias="again")]}]))
    # the same schema field selected twice under two aliases, the recursion only below the SECOND selection (and below the first):
    # what is remembered about a schema field must not stand in for a selection of it
    P.append(("recursion below the second of two selections of one field", [f("t", [["spread", "F"]])],
              [{"name": "F", "on": "TT", "sel": [f("id"), f("t", [f("name")], alias="first"), f("t", [["spread", "F"]], alias="second")]}]))
    P.append(("recursion below the first of two selections of one field", [f("t", [["spread", "F"]])],
              [{"name": "F", "on": "TT", "sel": [f("id"), f("t", [["spread", "F"]], alias="first"), f("t", [f("name")], alias="second")]}]))
    P.append(("two fragments spreading each other through the same field name", [f("t", [["spread", "Ping"]])],
              [{"name": "Ping", "on": "TT", "sel": [f("id"), f("t", [["spread", "Pong"]])]}, {"name": "Pong", "on": "TT", "sel": [f("name"), f("t", [["spread", "Ping"]])]}]))
    for order in (("Plain", "Tree"), ("Tree", "Plain")):
        P.append(("two spreads on one union variant (%s first), one recursive through the field" % order[0], [f("t", [["spread", "Tree"]])],
                  [{"name": "Tree", "on": "TT", "sel": [f("id"), f("u", [["typename"], ["spread", order[0]], ["spread", order[1]], ["inline", "OO", [f("k")]]])]},
                   {"name": "Plain", "on": "TT", "sel": [f("name")]}]))
        P.append(("two spreads on one interface variant (%s first), one recursive through the field" % order[0], [f("t", [["spread", "Tree"]])],
                  [{"name": "Tree", "on": "TT", "sel": [f("id"), f("i", [["typename"], ["spread", order[0]], ["spread", order[1]]])]},
                   {"name": "Plain", "on": "TT", "sel": [f("name")]}]))
        P.append(("spread and inline on one variant (%s), recursive spread" % order[0], [f("t", [["spread", "Tree"]])],
                  [{"name": "Tree", "on": "TT", "sel": [f("id"), f("u", [["typename"]] + ([["inline", "TT", [f("name")]], ["spread", "Tree"]] if order[0] == "Plain" else [["spread", "Tree"], ["inline", "TT", [f("name")]]]))]}]))
    P.append(("plain fragment defined first spreads into a mutual pair", [f("t", [["spread", "Card"]])],
              [{"name": "Card", "on": "TT", "sel": [f("name"), ["spread", "A"]]},
               {"name": "A", "on": "TT", "sel": [f("id"), f("o", [["spread", "B"]])]}, {"name": "B", "on": "OO", "sel": [f("k"), f("t", [["spread", "A"]])]}]))
    P.append(("self-recursive fragment spreads a mutual pair before itself", [f("t", [["spread", "S"]])],
              [{"name": "S", "on": "TT", "sel": [f("o", [["spread", "B"]]), f("t", [["spread", "S"]]), f("name")]},
               {"name": "A", "on": "TT", "sel": [f("id"), f("o", [["spread", "B"]])]}, {"name": "B", "on": "OO", "sel": [f("k"), f("t", [["spread", "A"]])]}]))
    P.append(("tail of two plain fragments into a three-cycle", [f("t", [["spread", "T1"]])],
              [{"name": "T1", "on": "TT", "sel": [f("name"), f("o", [["spread", "T2"]])]}, {"name": "T2", "on": "OO", "sel": [f("k"), f("t", [["spread", "A"]])]},
               {"name": "A", "on": "TT", "sel": [f("id"), f("o", [["spread", "B"]])]}, {"name": "B", "on": "OO", "sel": [f("k", alias="kb"), f("third", [["spread", "C"]])]},
               {"name": "C", "on": "Third", "sel": [f("z"), f("t", [["spread", "A"]])]}]))
    # ordered pairs and triples of recursive positions inside ONE fragment: non-list field, list field, list of lists, and a
    # non-list field one object further down - a position behind a list needs no indirection, the next one may (and the other
    # way round): whatever the analysis remembers from one position must not leak into the next
    def pos(kind, alias=None):
        if kind == "t":
            return f("t", [["spread", "F"]], alias=alias)
        if kind == "ts":
            return f("ts", [["spread", "F"]], alias=alias)
        if kind == "tss":
            return f("tss", [["spread", "F"]], alias=alias)
        return f("o", [f("k"), f("t", [["spread", "F"]])], alias=alias)
    kinds = ["t", "ts", "tss", "o.t"]
    for a in kinds:
        for b in kinds:
            P.append(("positions [%s, %s] in one recursive fragment" % (a, b), [f("t", [["spread", "F"]])],
                      [{"name": "F", "on": "TT", "sel": [f("id"), pos(a), pos(b, alias="again" if a == b else None)]}]))
    for trip in (("ts", "t", "ts"), ("t", "ts", "t"), ("tss", "o.t", "ts"), ("ts", "tss", "t"), ("o.t", "ts", "t")):
        sel3, used = [f("id")], {}
        for k in trip:
            used[k] = used.get(k, 0) + 1
            sel3.append(pos(k, alias=("again%d" % used[k]) if used[k] > 1 else None))
        P.append(("positions %s in one recursive fragment" % list(trip), [f("t", [["spread", "F"]])], [{"name": "F", "on": "TT", "sel": sel3}]))
    # the same through an operation that enters the fragment behind a list
    P.append(("entered behind a list, positions [ts, t]", [f("t", [f("ts", [["spread", "F"]])])],
              [{"name": "F", "on": "TT", "sel": [f("id"), pos("ts"), pos("t")]}]))
    # every pattern also with its fragment definitions in reverse and in shuffled order (visit order of the analysis)
    for (label, sel, frags) in list(P):
        if len(frags) >= 2:
            P.append((label + " [reversed definitions]", sel, list(reversed(frags))))
            sh = list(frags)
            rng.shuffle(sh)
            P.append((label + " [shuffled definitions]", sel, sh))
    # a second schema in which NO object type has a field of its own type: the only way from `Folder` back to `Folder` is through
    # a field typed by an interface it implements, or by a union it belongs to
    s2 = Schema()
    s2.add("Node", {"kind": "interface", "fields": [{"name": "id", "type": NN(T("ID")), "args": [], "deprecated": None}]})
    s2.add("Folder", obj("Folder", [("id", NN(T("ID"))), ("parent", T("Node")), ("first", T("Item")), ("children", L(NN(T("Node")))), ("name", T("String"))], ["Node"]))
    s2.add("File", obj("File", [("id", NN(T("ID"))), ("dir", T("Node")), ("size", T("Int"))], ["Node"]))
    s2.add("Item", {"kind": "union", "members": ["Folder", "File"]})
    s2.add("Query", obj("Query", [("folder", T("Folder")), ("node", T("Node")), ("item", T("Item"))]))
    P2 = []
    P2.append(("back to the type only through an interface-typed field", [f("folder", [["spread", "FP"]])],
               [{"name": "FP", "on": "Folder", "sel": [f("id"), f("parent", [["typename"], ["spread", "FP"]])]}]))
    P2.append(("back to the type only through an interface-typed field, under an inline fragment", [f("folder", [["spread", "FP"]])],
               [{"name": "FP", "on": "Folder", "sel": [f("name"), f("parent", [["typename"], ["inline", "Folder", [["spread", "FP"]]], ["inline", "File", [f("size")]]])]}]))
    P2.append(("fragment on the interface, recursion inside a variant", [f("node", [["spread", "N"]])],
               [{"name": "N", "on": "Node", "sel": [["typename"], f("id"), ["inline", "Folder", [f("parent", [["spread", "N"]])]]]}]))
    P2.append(("back to the type only through a union-typed field", [f("folder", [["spread", "FU"]])],
               [{"name": "FU", "on": "Folder", "sel": [f("id"), f("first", [["typename"], ["spread", "FU"], ["inline", "File", [f("size")]]])]}]))
    P2.append(("mutual pair linked by interface-typed fields", [f("folder", [["spread", "FA"]])],
               [{"name": "FA", "on": "Folder", "sel": [f("id"), f("parent", [["typename"], ["spread", "FB"]])]}, {"name": "FB", "on": "File", "sel": [f("size"), f("dir", [["typename"], ["spread", "FA"]])]}]))
    P2.append(("through an interface-typed LIST field (no indirection needed) next to a plain one", [f("folder", [["spread", "FL"]])],
               [{"name": "FL", "on": "Folder", "sel": [f("id"), f("children", [["typename"], ["spread", "FL"]]), f("parent", [["typename"], ["spread", "FL"]])]}]))
    out = []
    for i, (label, sel, frags) in enumerate(P + P2):
        doc = {"operations": [{"kind": "query", "name": "Q", "vars": [], "sel": sel}], "fragments": frags}
        c = C.make_case("f%d" % i, s if i < len(P) else s2, doc, rng, options={"other_variant": i % 2 == 1}, fmt=["sdl", "json"][i % 2])
        vecs, stats = C.resp_vectors(c, rng, n_payloads=8)
        c["vectors"] = vecs
        c["pattern"] = label
        c["features"] = ["fragment-pattern"]
        out.append(c)
    return out


def wide_and_long_cases(rng):
    """size, not shape: (1) a two-type input cycle whose closing members come after 70 / 150 other input-typed members (comparison
    inputs in the style of Hasura's `*_bool_exp`); (2) fragment cycles of 12, 40 and 48 fragments through plain object fields.
    Whatever bounds the searches keep, the answer must stay "needs an indirection" """
    out = []
    for wi, n in enumerate((70, 150)):
        s = Schema()
        for k in range(n):
            s.add("Cmp%02d" % k, {"kind": "input", "one_of": False, "fields": [["eq", T("Int")], ["inner", T("Leaf%d" % (k % 3))]]})
        for k in range(3):
            s.add("Leaf%d" % k, {"kind": "input", "one_of": False, "fields": [["v", T("String")]]})
        s.add("UsersBoolExp", {"kind": "input", "one_of": False, "fields": [["c%02d" % k, T("Cmp%02d" % k)] for k in range(n)] + [["posts", T("PostsBoolExp")]]})
        s.add("PostsBoolExp", {"kind": "input", "one_of": False, "fields": [["c%02d" % k, T("Cmp%02d" % k)] for k in range(n)] + [["author", T("UsersBoolExp")]]})
        s.add("Query", obj("Query", [("x", T("Int"))]))
        doc = {"operations": [{"kind": "query", "name": "Q", "vars": [{"name": "where", "type": T("UsersBoolExp"), "default": None}], "sel": [["field", None, "x", None, None]]}], "fragments": []}
        c = C.make_case("w%d" % wi, s, doc, rng, options={"skip_none": True}, fmt=["sdl", "json"][wi % 2])
        val = {"where": {"c00": {"eq": 1}, "posts": {"author": {"c01": {"eq": 2, "inner": {"v": "x"}}, "posts": {"c02": {"eq": 3}}}}}}
        c["vectors"] = [{"id": "a0", "kind": "vars", "target": "Q", "input": val, "expect": {"variables": val}}]
        c["pattern"] = "two-type input cycle closed after %d sibling input members" % n
        c["features"] = ["wide-input-cycle"]
        out.append(c)
    # one input type holding SEVERAL members of one recursive type: a list member (needs no indirection) declared before / after a
    # plain one (needs it), directly and through a two-type cycle: each member is decided on its own
    for mi, decl in enumerate(([("label", NN(T("String"))), ("children", L(NN(T("TreeNode")))), ("next", T("TreeNode"))],
                               [("next", T("TreeNode")), ("children", L(NN(T("TreeNode")))), ("label", NN(T("String")))],
                               [("kids", L(T("TreeNode"))), ("children", NN(L(NN(T("TreeNode"))))), ("a", T("TreeNode")), ("b", T("TreeNode"))])):
        s = Schema()
        s.add("TreeNode", {"kind": "input", "one_of": False, "fields": [[n_, t_] for n_, t_ in decl]})
        s.add("Outline", {"kind": "input", "one_of": False, "fields": [["sections", L(NN(T("Section")))], ["main", T("Section")]]})
        s.add("Section", {"kind": "input", "one_of": False, "fields": [["related", L(T("Outline"))], ["parent", T("Outline")]]})
        s.add("Query", obj("Query", [("x", T("Int"))]))
        doc = {"operations": [{"kind": "query", "name": "Q", "vars": [{"name": "tree", "type": T("TreeNode"), "default": None}, {"name": "o", "type": T("Outline"), "default": None}],
                               "sel": [["field", None, "x", None, None]]}], "fragments": []}
        c = C.make_case("m%d" % mi, s, doc, rng, options={"skip_none": True}, fmt=["sdl", "json", "sdl"][mi])
        plain = [n_ for n_, t_ in decl if t_ == T("TreeNode")][0]
        lst = [n_ for n_, t_ in decl if t_[0] in ("list", "nn") and n_ != "label"][0]
        leaf = {"label": "l"} if any(n_ == "label" for n_, _ in decl) else {}
        if any(n_ == "children" and t_[0] == "nn" for n_, t_ in decl):
            leaf = dict(leaf, children=[])
        val = {"tree": dict(leaf, **{plain: dict(leaf, **{plain: dict(leaf)}), lst: [dict(leaf), dict(leaf, **{plain: dict(leaf)})]}),
               "o": {"main": {"parent": {"sections": [{"related": [None]}]}}}}
        c["vectors"] = [{"id": "a0", "kind": "vars", "target": "Q", "input": val, "expect": {"variables": val}}]
        c["pattern"] = "list and plain members of one recursive input type in one struct (declaration order %d)" % mi
        c["features"] = ["several-members-of-one-recursive-type"]
        out.append(c)
    for li, n in enumerate((12, 40, 48)):      # (beyond ~80 distinct nested types rustc's own recursion limit answers, E0320: not this property's business)
        s = Schema()
        s.add("Stage", obj("Stage", [("id", NN(T("ID"))), ("label", T("String")), ("next", T("Stage"))]))
        s.add("Query", obj("Query", [("start", T("Stage"))]))

        def f(name, sub=None):
            return ["field", None, name, None, sub]
        frags = [{"name": "Stage%02d" % k, "on": "Stage", "sel": [f("id"), f("label"), f("next", [["spread", "Stage%02d" % ((k + 1) % n)]])]} for k in range(n)]
        doc = {"operations": [{"kind": "query", "name": "Q", "vars": [], "sel": [f("start", [["spread", "Stage00"]])]}], "fragments": frags}
        c = C.make_case("l%d" % li, s, doc, rng, options={}, fmt="sdl")
        payload = None
        for k in range(5):
            payload = {"id": "s%d" % k, "label": None if k % 2 else "L", "next": payload}
        c["vectors"] = [{"id": "r0", "kind": "resp", "target": "Q", "input": {"start": payload}, "expect": {"ok": True, "reser": json.loads(json.dumps({"start": payload}))}, "label": "conforming"}]
        c["pattern"] = "cycle of %d fragments through a plain object field" % n
        c["features"] = ["long-fragment-cycle"]
        out.append(c)
    return out


def main(run):
    run.rule = RULE
    run.assumptions = ["non-null cycles without a list are uninhabited but legal to declare: they must compile and get no round-trip vector",
                       "values for round trips come from vlib/gen_vars.py ValueGen with depth 3"]
    rng = run.rng
    graphs = enumerate_graphs()
    run.exhaustive = True
    # every graph once; the naming style of the types, normalization and skip_serializing_none cycle with the index (16 combinations)
    cases = [graph_case("g%d" % i, ns, e, one, rng, fmt="sdl" if i % 3 else "json", style=(i // 2) % 4, rust=(i % 2 == 1), skip=((i // 8) % 2 == 1)) for i, (ns, e, one) in enumerate(graphs)]
    # random graphs on 3-4 types
    allk = list(KINDS) + list(EXTRA_KINDS)
    for i in range(run.size(120, 2400)):
        n = rng.choice([3, 4])
        ns = ["A", "B", "C", "D"][:n]
        one = {x: rng.random() < 0.25 for x in ns}
        edges = {}
        for a in ns:
            for b in ns:
                if rng.random() < 0.4:
                    ks = [k for k in allk if not (one[a] and k.endswith("!"))]
                    edges[(a, b)] = rng.choice(ks)
        cases.append(graph_case("r%d" % i, ns, edges, one, rng, fmt=rng.choice(["sdl", "json"]), style=rng.randrange(4), rust=rng.random() < 0.5, skip=rng.random() < 0.5))
    frs = fragment_patterns(rng)
    cases += frs
    cases += wide_and_long_cases(rng)
    cases += hazards.cases_for(run, "C12")
    fac = Factory("C12-%d" % run.seed)
    # generation with inspect first: pre-screen every graph
    gen = fac.generate(cases)
    verdict = fac.compile(cases, gen)
    obs = fac.probe(cases, verdict)
    for c in cases:
        cid = c["id"]
        g = gen[cid]
        run.evaluated()
        is_graph = "graph" in c
        if is_graph:
            run.count("graphs")
            if c["cyclic"]:
                run.count("graphs-with-cycle")
                run.nontrivial(c["graph"])
            if c["needs_box"]:
                run.count("graphs-needing-indirection")
        else:
            run.count("fragment-patterns")
            run.nontrivial(c.get("pattern"))
        label = json.dumps(c.get("graph")) if is_graph else c.get("pattern")
        if g["outcome"] != "ok":
            run.violation(c, "generation-%s for %s: %s" % (g["outcome"], label, (g.get("message") or "")[:200]))
            continue
        cyc = prescreen(g.get("inspect") or {})
        v = verdict.get(cid)
        if v == "inconclusive":
            run.inconclusive_case(cid, "build failed without attribution %s" % (fac.unattributed[:1],))
            continue
        rejected = v != "accepted"
        if (cyc is not None) == rejected or (rejected and (v.get("code") != "E0072")):
            run.count("prescreen-agrees")
        else:
            run.count("prescreen-disagrees")
            run.extra.setdefault("prescreen_disagreements", []).append({"case": cid, "prescreen_cycle": cyc, "rustc": v})
        if rejected:
            run.violation(c, "rustc %s for %s: %s" % (v.get("code"), label, v.get("message")), {"prescreen_cycle": cyc})
            if c["corpus"] != "clean":
                run.witness_result(c["corpus"].split(":")[1], True)
            continue
        run.count("rustc-accepted")
        o = obs.get(cid)
        if c.get("vectors"):
            if o is None or o.get("signal") or o.get("exit") != 0:
                if o is not None and o.get("signal"):
                    run.violation(c, "probe killed by signal %s on a recursive value (%s)" % (o.get("signal"), label))
                else:
                    run.inconclusive_case(cid, "probe exit=%s" % (o and o.get("exit")))
                continue
            bad = None
            for vec in c["vectors"]:
                ob = o["obs"].get(vec["id"])
                run.evaluated()
                run.count("round-trips")
                if vec["kind"] == "vars":
                    if ob is None or not ob.get("ok"):
                        bad = "recursive value not expressible: %s" % (ob and ob.get("err"))
                    elif not strict_same((ob.get("body") or {}).get("variables"), vec["expect"]["variables"]):
                        bad = "indirection visible in JSON: %s vs %s" % (json.dumps((ob.get("body") or {}).get("variables"))[:150], json.dumps(vec["expect"]["variables"])[:150])
                else:
                    bad = C.judge_resp(vec, ob)
                if bad:
                    one = dict(c)
                    one["vectors"] = [vec]
                    run.violation(one, "%s: %s" % (label, bad), {"observed": ob})
                    break
                run.held()
            if bad:
                continue
        run.held()
        if c.get("cyclic") and run.counters.get("graphs-with-cycle", 0) % 200 == 1 or (not is_graph and run.counters["fragment-patterns"] <= 2):
            boxed = sorted({f["type"] for it in (g.get("inspect") or {}).get("items", []) if it["kind"] == "struct" for f in it["fields"] if "Box<" in f["type"]})
            run.sample({"graph_or_pattern": c.get("graph") or c.get("pattern"), "document": c["doc_text"][:300], "boxed_field_types": boxed[:6],
                        "value": (c["vectors"][0]["input"] if c.get("vectors") else None)}, limit=6)
    run.extra["timing"] = fac.timing
    fac.cleanup()
    floor = dict(FLOOR)
    return run.finish(floor=floor)


def replay(run, rec):
    c = rec["case"]
    fac = Factory("C12-replay")
    gen, verdict, obs = fac.run([c])
    run.evaluated()
    v = verdict.get(c["id"])
    print("generation:", gen[c["id"]]["outcome"], "rustc:", v)
    if gen[c["id"]]["outcome"] != "ok" or v != "accepted":
        run.violation(c, "replayed: %s" % (v,))
    else:
        run.held()
    fac.cleanup()
    return run.finish()
