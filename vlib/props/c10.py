"""C10 - generated enums are open-world string bijections.
Monitor: `enum` trace of the compiled enum types (string -> enum -> Debug + string), plus the same
strings through a response field and a variable; oracle: schema names map to distinct non-Other
variants and back, every other string maps to Other(s) and back, non-strings are rejected."""
import json

from .. import cases as C
from ..factory import Factory
from ..model import Schema, T, L, NN
from .. import names
from .. import hazards

RULE = ("enum definitions with 1-8 value names drawn from pools (SCREAMING, camelCase, snake_case, PascalCase, Rust keywords, "
        "leading underscore, digits, single letters), reachable from a response field, a list field, a variable and an input "
        "field x strings: all schema names, near-misses (case-folded, underscores stripped / added, the normalised form, "
        "prefix / suffix, surrounding blanks), empty, non-ASCII, 4 KB, plus the non-strings 1, 1.5, null, true, [], {} x "
        "normalization {none, rust} x deprecation strategy {unset, deny, warn, allow} with ~30% of the values deprecated in the schema; "
        "JSON schemas mostly carry unused decoy types (an enum without visible values first in the type list). Non-trivial = enum with a keyword or a value whose Rust identifier differs from its name; "
        "distinct by (value list, normalization)")

VALUE_POOL = ["RED", "GREEN", "DARK_BLUE", "blue", "darkGray", "light_pink", "V1", "A_1", "Mixed_Case", "NOT_FOUND", "a", "B", "Http2", "in_progress",
              "type", "match", "in", "fn", "self_", "async", "where", "loop", "Self_", "_leading", "x", "iOS", "HTTPServer", "snake_case_value",
              "PascalCase", "camelCaseValue", "struct", "enum", "impl", "yield", "dyn", "abstract", "union", "ref", "mod", "use", "super_", "crate_"]
FLOOR = {"enum-strings": 1000, "schema-names": 120, "other-strings": 600, "non-strings": 200, "keyword-values": 15, "norm-rust": 10, "enums-with-deprecated-values": 10, "json-with-decoy-types": 5}


def near_misses(vals, rng):
    out = set()
    for v in vals:
        out |= {v.lower(), v.upper(), v.replace("_", ""), v + "_", "_" + v, v[:-1], v + "X", " " + v, v + " ", names.camel(v), names.snake(v), v.swapcase()}
    out |= {"", "é", "☃☃", "Other", "other", "OTHER", "Unknown", "null", "0", "x" * 4096, "a\"b\\c\n", "RED\u0000"}
    out -= set(vals)
    out = sorted(out)
    rng.shuffle(out)
    return out


def gen_cases(run, n, prefix="c"):
    rng = run.rng
    out = []
    for i in range(n):
        rust = (i % 2 == 1)
        k = rng.randint(1, 8)
        vals, seen = [], set()
        for v in rng.sample(VALUE_POOL, k):
            cm = names.camel(v)
            if cm in seen or cm in ("Other",) or v in seen:
                continue
            seen.add(cm)
            seen.add(v)
            vals.append(v)
        ename = rng.choice(["Color", "color_kind", "SCREAM_ENUM", "E1", "camelEnum"])
        s = Schema()
        # some values are deprecated in the schema (SDL directive / isDeprecated): a deprecated value is still a value the
        # server sends and accepts, under every deprecation strategy
        dep = {v: rng.choice([{"reason": None}, {"reason": "use another value"}, {"reason": "no \"longer\" used"}]) for v in vals if rng.random() < 0.3}
        s.add(ename, {"kind": "enum", "values": vals, "deprecated_values": dep})
        # a second enum in the same operation that shares some value names with the first
        vals2 = list(rng.sample(vals, rng.randint(1, len(vals)))) + [v for v in rng.sample(VALUE_POOL, 2) if names.camel(v) not in seen and v not in seen]
        seen2, v2 = set(), []
        for v in vals2:
            if names.camel(v) not in seen2:
                seen2.add(names.camel(v))
                v2.append(v)
        rng.shuffle(v2)
        s.add("Second", {"kind": "enum", "values": v2})
        s.add("In", {"kind": "input", "one_of": False, "fields": [["e", T(ename)], ["es", L(NN(T(ename)))]]})
        s.add("Query", {"kind": "object", "implements": [], "fields": [
            {"name": "e", "type": T(ename), "args": [], "deprecated": None},
            {"name": "es", "type": L(NN(T(ename))), "args": [], "deprecated": None},
            {"name": "second", "type": T("Second"), "args": [], "deprecated": None}]})
        doc = {"operations": [{"kind": "query", "name": "Q", "vars": [{"name": "v", "type": T(ename), "default": None}, {"name": "i", "type": T("In"), "default": None},
                                                                   {"name": "w", "type": T("Second"), "default": None}],
                               "sel": [["field", None, "e", None, None], ["field", None, "es", None, None], ["field", None, "second", None, None]]}], "fragments": []}
        opts = {"normalization": "rust"} if rust else {}
        strat = [None, "deny", "warn", "allow"][(i // 2) % 4]
        if strat:
            opts["deprecation"] = strat
        c = C.make_case("%s%d" % (prefix, i), s, doc, rng, options=opts, fmt=rng.choice(["sdl", "json"]))
        if c["schema_format"] != "sdl" and i % 3 != 2:
            # a server's type list also holds types the operation never touches, among them an enum without (visible) values
            from ..model import render_json
            c["schema_text"] = render_json(s, wrapped=c["schema_format"] == "json-data", builtins=rng.choice(["none", "scalars", "all"]), rng=rng, decoys=True)
            run.count("json-with-decoy-types")
        if dep:
            run.count("enums-with-deprecated-values")
            run.count("strategy:%s" % strat)
        strings = list(vals) + near_misses(vals, rng)[: run.size(40, 120)]
        vecs = []
        for si, st in enumerate(v2 + ["zz_not_a_value", ""]):
            vecs.append({"id": "s%d" % si, "kind": "enum", "target": "@enum-of:Second", "input": st, "expect": {"known": st in v2}, "s": st, "enum": "Second"})
        for si, st in enumerate(strings):
            known = st in vals
            vecs.append({"id": "e%d" % si, "kind": "enum", "target": "@enum-of:" + ename, "input": st, "expect": {"known": known}, "s": st, "enum": ename})
            if si % 3 == 0 or known:
                vecs.append({"id": "r%d" % si, "kind": "resp", "target": "Q", "input": {"e": st, "es": [st, st], "second": None}, "expect": {"ok": True, "reser": {"e": st, "es": [st, st]}}, "label": "enum-in-response"})
                vecs.append({"id": "v%d" % si, "kind": "vars", "target": "Q", "input": {"v": st, "i": {"e": st, "es": [st]}}, "expect": {"variables": {"v": st, "i": {"e": st, "es": [st]}}}})
        for ni, nv in enumerate([1, 1.5, None, True, [], {}, ["RED"]]):
            vecs.append({"id": "n%d" % ni, "kind": "enum", "target": "@enum-of:" + ename, "input": nv, "expect": {"reject": True}})
        c["vectors"] = vecs
        c["enum_values"] = vals
        feats = []
        if any(v in names.KEYWORDS for v in vals):
            feats.append("keyword-values")
        if rust:
            feats.append("norm-rust")
        if any(names.camel(v) != v for v in vals):
            feats.append("renamed-under-rust")
        c["features"] = feats
        out.append(c)
    return out


def extended_enum_cases(run):
    """SDL `extend enum`: the values of the DEFINITION keep their variants whatever happens to the extension (clean corpus); the
    extension's own value is a schema value too - the pinned tree ignores enum extensions altogether (finding K11, hazard corpus)"""
    from ..model import Schema
    out = []
    for ci, (corpus, probe) in enumerate((("clean", ["OPEN", "closed", "type", "zz_unknown", ""]), ("hazard:K11", ["IN_REVIEW"]))):
        for rust in (False, True):
            s = Schema()
            s.add("Status", {"kind": "enum", "values": ["OPEN", "closed", "type"]})
            s.add("Plain", {"kind": "enum", "values": ["A", "B"]})
            s.add("Query", {"kind": "object", "implements": [], "fields": [{"name": "e", "type": T("Status"), "args": [], "deprecated": None}, {"name": "p", "type": T("Plain"), "args": [], "deprecated": None}]})
            doc = {"operations": [{"kind": "query", "name": "Q", "vars": [{"name": "v", "type": T("Status"), "default": None}], "sel": [["field", None, "e", None, None], ["field", None, "p", None, None]]}], "fragments": []}
            c = C.make_case("xe%d%d" % (ci, int(rust)), s, doc, run.rng, options={"normalization": "rust"} if rust else {}, fmt="sdl", corpus=corpus)
            c["schema_text"] = "enum Status { OPEN closed type }\nenum Plain { A B }\ntype Query { e: Status p: Plain }\nextend enum Status @tag { IN_REVIEW }\nextend enum Status { done }\ndirective @tag on ENUM\n"
            c["schema_ext"] = "graphql"
            known = {"OPEN", "closed", "type", "IN_REVIEW", "done"}
            c["vectors"] = [{"id": "x%d" % k, "kind": "enum", "target": "@enum-of:Status", "input": st, "expect": {"known": st in known}, "s": st, "enum": "Status"} for k, st in enumerate(probe)]
            c["enum_values"] = sorted(known)
            c["features"] = ["extend-enum"]
            out.append(c)
    return out


def execute(run, cases, tag="b0"):
    fac = Factory("%s-%s-%d" % (run.prop, tag, run.seed))
    gen, verdict, obs = fac.run(cases)
    for c in cases:
        cid = c["id"]
        g = gen[cid]
        if g["outcome"] != "ok":
            run.violation(c, "generation-%s: %s" % (g["outcome"], (g.get("message") or "")[:200]))
            continue
        v = verdict.get(cid)
        if v == "inconclusive":
            run.inconclusive_case(cid, "build failed without attribution %s" % (fac.unattributed[:1],))
            continue
        if v != "accepted":
            run.violation(c, "rustc %s: %s" % (v.get("code"), v.get("message")))
            if c["corpus"] != "clean":
                run.witness_result(c["corpus"].split(":")[1], True)
            continue
        o = obs.get(cid)
        if o is None or o.get("signal") or o.get("exit") != 0:
            run.inconclusive_case(cid, "probe exit=%s signal=%s" % (o and o.get("exit"), o and o.get("signal")))
            continue
        run.feature(c["features"])
        debug_of = {}
        debug_by_enum = {}
        failed = None
        for vec in c["vectors"]:
            ob = o["obs"].get(vec["id"])
            run.evaluated()
            sym = None
            if ob is None or "no_such_probe" in ob:
                sym = "no-observation (%s)" % (ob,)
            elif vec["kind"] == "enum":
                exp = vec["expect"]
                if exp.get("reject"):
                    run.count("non-strings")
                    if ob.get("ok"):
                        sym = "non-string JSON %s accepted as enum (%s)" % (json.dumps(vec["input"]), ob.get("debug"))
                else:
                    run.count("enum-strings")
                    s0 = vec["s"]
                    if not ob.get("ok"):
                        sym = "string %r rejected: %s" % (s0[:40], ob.get("err"))
                    elif ob.get("reser") != s0:
                        sym = "serialize(deserialize(%r)) = %r" % (s0[:40], ob.get("reser") if not isinstance(ob.get("reser"), str) else ob.get("reser")[:40])
                    elif exp["known"]:
                        run.count("schema-names")
                        d = ob.get("debug", "")
                        dmap = debug_by_enum.setdefault(vec.get("enum"), {})
                        squash = lambda x: x.replace("_", "").lower()
                        if d.startswith("Other("):
                            sym = "schema value %r deserialises to the catch-all %s" % (s0, d[:40])
                        elif d in dmap and dmap[d] != s0:
                            sym = "schema values %r and %r share variant %s" % (dmap[d], s0, d)
                        elif squash(d) != squash(s0):
                            # "its own variant": the variant is the value's name up to case, underscores and the keyword suffix
                            sym = "schema value %r maps to the variant %s, which is another value's" % (s0, d)
                        dmap[d] = s0
                        debug_of[d] = s0
                    else:
                        run.count("other-strings")
                        d = ob.get("debug", "")
                        if not d.startswith("Other("):
                            sym = "non-schema string %r maps to variant %s instead of Other" % (s0[:40], d[:40])
            elif vec["kind"] == "resp":
                sym = C.judge_resp(vec, ob)
            elif vec["kind"] == "vars":
                got_vars = dict((ob.get("body") or {}).get("variables") or {})
                got_vars.pop("w", None)
                if not ob.get("ok"):
                    sym = "variables not expressible: %s" % ob.get("err")
                elif got_vars != vec["expect"]["variables"]:
                    sym = "variables differ: %s" % json.dumps((ob.get("body") or {}).get("variables"))[:120]
            if sym:
                one = dict(c)
                one["vectors"] = [vec]
                run.violation(one, sym, {"observed": ob})
                failed = sym
                break
            run.held()
        if c["corpus"] != "clean":
            run.witness_result(c["corpus"].split(":")[1], bool(failed))
        if "keyword-values" in c["features"] or "renamed-under-rust" in c["features"]:
            run.nontrivial(c["enum_values"], c["options"].get("normalization"))
        if not failed:
            run.sample({"enum_values": c.get("enum_values"), "options": c["options"], "debug_of_each_value": {v: k for k, v in debug_of.items()}}, limit=4)
    run.extra.setdefault("timing", []).append(fac.timing)
    fac.cleanup()


def main(run):
    run.rule = RULE
    run.assumptions = ["value names that collide after normalisation, or that equal / normalise to `Other`, are outside the clean corpus (finding K4)",
                       "`true`, `false`, `null` are not legal enum value names in GraphQL"]
    cs = gen_cases(run, run.size(40, 600))
    cs += extended_enum_cases(run)
    cs += hazards.cases_for(run, "C10")
    for w in cs:
        w.setdefault("enum_values", [])
    execute(run, cs)
    return run.finish(floor=FLOOR if run.tier == "quick" else {k: v * 10 for k, v in FLOOR.items()})


def replay(run, rec):
    c = rec["case"]
    c.setdefault("enum_values", [])
    execute(run, [c], tag="replay")
    return run.finish()
