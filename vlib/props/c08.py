"""C08 - codegen is a pure function of its inputs across calls, threads and processes.
Monitors: (1) call histories in one driver process and barrier-released multi-thread stampedes,
each call compared with the same call made alone in a fresh process; (2) the cache event log
(hook H2, recorded under the cache's own lock): fills / hits / failed fills and the distinct lock
orders seen, as observations in the evidence (the fill-once pattern is an implementation choice, not
part of the property: not judged); (3) a reduced stampede under Miri (data races / UB, a different
schedule per seed); (4) whole stampedes in a ThreadSanitizer build of the driver."""
import json
import os
import re
import shutil
import subprocess
from concurrent.futures import ThreadPoolExecutor

from .. import build
from ..factory import run_gendrv_one, watched_run, NCPU
from ..gen_schema import gen_schema
from ..gen_query import gen_document
from ..model import render_document, render_sdl, render_json

RULE = ("a directory tree with the same schema under two paths, different schemas with the same base name (also one level up, reached "
        "through relative `../` paths from the drivers' working directory), documents whose first fragment is recursive in one and "
        "plain in the other, documents nested 26-40 levels deep (every third stampede runs only those, 16 threads in lockstep: all threads released together before every call), SDL and JSON, a missing "
        "path, an unparsable SDL and JSON schema, an unparsable query, a query that fails validation; a pool of ~30 distinct calls "
        "(schema path x query path | query string x 3 option sets). Reference = every distinct call alone in a fresh process. "
        "Histories: random sequences of 20-200 calls in one process with failing calls interleaved; stampedes of 2..16 threads "
        "one history over 80 (thorough 400) distinct schema and query files followed by repeats of the early ones; stampedes of 2..16 threads "
        "released by a barrier with 0-300 us sleeps between calls (never inside the cache lock); every call's result must equal "
        "the reference (exact tokens for Ok, exact message for Err, panic class otherwise). Cache event log (recorded under the cache's own lock): fills, hits, failed fills and the "
        "distinct lock orders are reported as observations (the fill-once pattern is not part of the property and not judged). 4 (thorough 48) further stampedes run in a ThreadSanitizer build of the driver (std included): a race report is refuting, results compared as everywhere. A 9-step history of CLI invocations into one output directory (other options, another file of the same base name, repeats), each compared with the same invocation into a fresh directory. Non-trivial = history with a failing call or >= 2 threads; "
        "distinct by the sequence of (thread, call id)")

# minima that hold by construction (24 histories x >= 20 calls, every other one starting with a failing call; 12 stampedes x >= 2 threads x >= 3 calls)
FLOOR = {"history-calls": 400, "stampede-calls": 60, "failing-calls-in-histories": 10, "calls-after-a-failure": 100, "cache-events": 300, "distinct-lock-orders": 3, "miri-runs": 1, "many-files-calls": 100, "tsan-runs": 2, "cli-history-steps": 9}
OPTS = [{"mode": "cli"}, {"mode": "cli", "normalization": "rust", "response_derives": "Debug"}, {"mode": "cli", "other_variant": True, "skip_none": True}]


def build_tree(root, rng):
    os.makedirs(os.path.join(root, "a"))
    os.makedirs(os.path.join(root, "b", "nested"))
    os.makedirs(os.path.join(root, "c"))
    s1 = gen_schema(rng, n_input=1)
    s2 = gen_schema(rng, n_input=2)
    d1, _ = gen_document(s1, rng)
    d1b, _ = gen_document(s1, rng)
    d2, _ = gen_document(s2, rng)
    files = {
        "a/schema.graphql": render_sdl(s1),
        "b/schema.graphql": render_sdl(s2),           # same base name, different schema
        "c/copy.graphqls": render_sdl(s1),            # same schema, different path and extension
        "a/schema.json": render_json(s1),
        "b/nested/schema.json": render_json(s2, wrapped=True),
        "c/bad.graphql": "type Query { x: Int",      # unparsable SDL
        "c/bad.json": "{ not json",
        "c/empty.json": "{}",
        "a/q.graphql": render_document(d1),
        "b/q.graphql": render_document(d2),           # same base name as a/q.graphql
        "a/q2.graphql": render_document(d1b),
        "c/badq.graphql": "query Q { x ",
        "c/invalid.graphql": "query Q { zz_no_such_field }\n",
    }
    # a fixed pair of documents whose FIRST fragment is recursive in one and plain in the other (same fragment index,
    # same name), against a small schema: state carried over between documents would show here
    files["fix/schema.graphql"] = ("interface Node { id: ID }\ntype A implements Node { id: ID a: A as: [A!] name: String }\ntype B implements Node { id: ID b: Int }\n"
                                   "union U = A | B\ntype Query { a: A n: Node u: U }\n")
    # documents that fail each kind of validation after having walked fragments, and valid look-alikes whose
    # fragments have the same names / indices (state left behind by a failed call would hit the look-alike)
    files["fix/bad_typename.graphql"] = "query T { n { ...Outer } }\nfragment Outer on Node { ...Base }\nfragment Base on Node { id }\n"
    files["fix/good_typename.graphql"] = "query T { n { ...Outer } }\nfragment Outer on Node { ...Base }\nfragment Base on Node { __typename id }\n"
    files["fix/bad_condition.graphql"] = "query C { a { ...OnB } }\nfragment OnB on B { b }\n"
    files["fix/good_condition.graphql"] = "query C { u { __typename ...OnB } }\nfragment OnB on B { b }\n"
    files["fix/bad_spread.graphql"] = "query S { a { ...Missing } }\nfragment Other on A { id }\n"
    files["fix/good_spread.graphql"] = "query S { a { ...Other } }\nfragment Other on A { id }\n"
    files["fix/bad_field.graphql"] = "query F { a { ...Fr } }\nfragment Fr on A { nope }\n"
    files["fix/good_field.graphql"] = "query F { a { ...Fr } }\nfragment Fr on A { name }\n"
    # an operation that uses many types of every kind (8 enums, 6 custom scalars, 6 input types): whatever collects "the
    # types this operation uses" must hand them on in an order that does not depend on the process or the call
    many_t = "".join("enum En%d { A%d B%d }\nscalar Sc%d\ninput In%d { e: En%d s: Sc%d n: In%d }\n" % (k, k, k, k, k, k, k, (k + 1) % 6) for k in range(6)) + "enum En6 { X }\nenum En7 { Y }\n"
    files["types/schema.graphql"] = many_t + "type T { " + " ".join("e%d: En%d s%d: Sc%d" % (k, k, k, k % 6) for k in range(8)) + " }\ntype Query { t(" + ", ".join("i%d: In%d" % (k, k) for k in range(6)) + "): T }\n"
    files["types/q.graphql"] = ("query ManyTypes(" + ", ".join("$i%d: In%d" % (k, k) for k in range(6)) + ", $e: En7, $s: Sc3) { t(" + ", ".join("i%d: $i%d" % (k, k) for k in range(6)) + ") { "
                                + " ".join("e%d s%d" % (k, k) for k in range(8)) + " } }\n")
    files["fix/rec.graphql"] = "query R { a { ...F } }\nfragment F on A { id a { ...F } }\n"
    files["fix/plain.graphql"] = "query P { a { ...F } }\nfragment F on A { id name }\n"
    files["fix/rec2.graphql"] = "query R2 { a { ...G ...F } }\nfragment G on A { name }\nfragment F on A { as { ...F } }\n"
    # deeply nested documents (26-40 levels): whatever a call keeps per level must be the call's own, also when many threads
    # are that deep at the same time
    # Each level also selects 12 aliased scalars before and 12 after the nested field, so that a call spends most of its
    # time somewhere inside the nesting (descending and unwinding) and 16 lockstep threads really overlap there.
    def deep(name, head, field, levels, leaf, tail=""):
        pre = lambda k: " ".join("p%d_%d: %s" % (k, j, "id" if j % 2 else "name") for j in range(12))
        post = lambda k: " ".join("q%d_%d: %s" % (k, j, "name" if j % 2 else "id") for j in range(12))
        text = "query %s { %s" % (name, head)
        for k in range(levels):
            text += "{ %s %s " % (pre(k), field)
        text += leaf
        for k in reversed(range(levels)):
            text += " %s }" % post(k)
        return text + tail + " }\n"
    files["fix/deep1.graphql"] = deep("D1", "a ", "a", 25, "{ id }")
    files["fix/deep2.graphql"] = deep("D2", "a ", "as", 30, "{ id name }")
    files["fix/deep3.graphql"] = deep("D3", "u { __typename ... on A ", "a", 38, "{ id }", tail=" }")
    # the same file names one directory level up / down: reached through relative paths from the working directory a/
    files["schema.graphql"] = files["b/schema.graphql"]
    files["q.graphql"] = files["b/q.graphql"]
    os.makedirs(os.path.join(root, "fix"))
    os.makedirs(os.path.join(root, "types"))
    for rel, text in files.items():
        with open(os.path.join(root, rel), "w") as f:
            f.write(text)
    # symbolic links whose NAME says something else than the file they lead to: `c/link.sdl` (no supported extension) and
    # `c/link.json` both lead to a/schema.graphql, `c/link.graphql` leads to a/schema.json. What a call on such a path gives
    # (an error, mostly) must not depend on whether the target was loaded under its own name before
    os.symlink(os.path.join(root, "a", "schema.graphql"), os.path.join(root, "c", "link.sdl"))
    os.symlink(os.path.join(root, "a", "schema.graphql"), os.path.join(root, "c", "link.json"))
    os.symlink(os.path.join(root, "a", "schema.json"), os.path.join(root, "c", "link.graphql"))
    os.symlink(os.path.join(root, "a", "schema.graphql"), os.path.join(root, "c", "same.graphqls"))
    P = lambda rel: os.path.join(root, rel)
    calls = []

    def call(schema, query=None, text=None, opts=0):
        c = {"id": "k%d" % len(calls), "schema_path": P(schema), "options": OPTS[opts], "want": ["tokens"]}
        if query:
            c["query_path"] = P(query)
        else:
            c["query_text"] = text
        calls.append(c)
    for o in range(3):
        call("a/schema.graphql", "a/q.graphql", opts=o)
        call("b/schema.graphql", "b/q.graphql", opts=o)
    call("c/copy.graphqls", "a/q.graphql")
    call("a/schema.json", "a/q.graphql")
    call("a/schema.json", "a/q2.graphql", opts=1)
    call("b/nested/schema.json", "b/q.graphql")
    call("a/schema.graphql", "a/q2.graphql")
    call("a/schema.graphql", text=files["a/q2.graphql"])
    call("b/schema.graphql", text=files["b/q.graphql"], opts=2)
    # cross: valid files, wrong pairing -> validation error (or, by chance, success: whatever the reference says)
    call("a/schema.graphql", "b/q.graphql")
    call("b/schema.graphql", "a/q.graphql")
    for ln in ("c/link.sdl", "c/link.json", "c/link.graphql", "c/same.graphqls"):
        call(ln, "a/q.graphql")
    # failing calls
    call("c/missing.graphql", "a/q.graphql")
    call("a/schema.graphql", "c/missing_q.graphql")
    call("c/bad.graphql", "a/q.graphql")
    call("c/bad.json", "a/q.graphql")
    call("c/empty.json", "a/q.graphql")
    call("a/schema.graphql", "c/badq.graphql")
    call("a/schema.graphql", "c/invalid.graphql")
    call("a/schema.graphql", text="query Q { zz }")
    call("a/schema.graphql", text="query Q { ")
    call("c/missing.graphql", text=files["a/q.graphql"])
    for dn in ("deep1", "deep2", "deep3"):
        call("fix/schema.graphql", "fix/%s.graphql" % dn)
        calls[-1]["deep"] = True
    call("fix/schema.graphql", text=files["fix/deep1.graphql"])
    calls[-1]["deep"] = True
    for o in range(3):
        call("types/schema.graphql", "types/q.graphql", opts=o)
    call("types/schema.graphql", text=files["types/q.graphql"])
    call("fix/schema.graphql", "fix/rec.graphql")
    call("fix/schema.graphql", "fix/plain.graphql")
    call("fix/schema.graphql", "fix/rec2.graphql")
    call("fix/schema.graphql", text=files["fix/plain.graphql"], opts=1)
    for nm in ("typename", "condition", "spread", "field"):
        call("fix/schema.graphql", "fix/bad_%s.graphql" % nm)
        call("fix/schema.graphql", "fix/good_%s.graphql" % nm)
        call("fix/schema.graphql", text=files["fix/bad_%s.graphql" % nm])
        call("fix/schema.graphql", text=files["fix/good_%s.graphql" % nm], opts=2)
    # relative paths (the drivers run with tree/a as working directory): `../schema.graphql` is tree/schema.graphql (= b's),
    # `schema.graphql` is tree/a/schema.graphql; plus other spellings of the same files
    def rel(schema, query, opts=0):
        c = {"id": "k%d" % len(calls), "schema_path": schema, "query_path": query, "options": OPTS[opts], "want": ["tokens"]}
        calls.append(c)
    rel("../schema.graphql", "../q.graphql")
    rel("schema.graphql", "q.graphql")
    rel("./schema.graphql", "./q.graphql", 1)
    rel("../a/schema.graphql", "../a/q.graphql")
    rel("../b/../schema.graphql", "../b/q.graphql")
    rel("../b/schema.graphql", "../q.graphql", 2)
    return calls


def classify(outcome, message):
    """error class of a failing call (fresh-process panics print to stderr, in-process ones are caught: compare classes)"""
    m = message or ""
    if outcome == "ok":
        return "ok"
    if "Could not find file" in m or "No such file" in m:
        return "fail:file-missing"
    if "arser error" in m or "parse" in m.lower() or "expected" in m.lower() or "EOF" in m or "key must be a string" in m:
        return "fail:parse"
    if "poisoned" in m:
        return "fail:POISONED"
    return "fail:other"


def main(run):
    run.rule = RULE
    run.assumptions = ["thread schedules are whatever the OS (or Miri's seeded scheduler) produces; the observed lock orders are recorded, not enumerated",
                       "a fresh `gendrv one` process per distinct call is the definition of 'the same call made alone'"]
    rng = run.rng
    root = os.path.join(build.BUILD, "work", "C08-%d" % run.seed)
    shutil.rmtree(root, ignore_errors=True)
    os.makedirs(root)
    calls = build_tree(os.path.join(root, "tree"), rng)
    cwd = os.path.join(root, "tree", "a")
    by_id = {c["id"]: c for c in calls}
    # ---- reference table
    with ThreadPoolExecutor(NCPU) as ex:
        refs = list(ex.map(lambda c: run_gendrv_one(c, wall_s=60, cwd=cwd), calls))
    ref = {}
    for c, r in zip(calls, refs):
        resp = r.get("response")
        if r["exit"] == 0 and resp:
            ref[c["id"]] = ("ok", resp["tokens"])
        elif r["exit"] == 2 and resp:
            ref[c["id"]] = ("err", resp["message"])
        elif r["exit"] == 101:
            ref[c["id"]] = ("panic", classify("panic", r["stderr_head"] + r["stderr"]))
        else:
            ref[c["id"]] = ("weird", "exit=%s signal=%s" % (r["exit"], r["signal"]))
            run.inconclusive_case(c["id"], "reference process: exit=%s signal=%s" % (r["exit"], r["signal"]))
    run.extra["reference_table"] = {k: (v[0] if v[0] != "err" else "err: " + v[1][:80]) for k, v in ref.items()}
    failing = {k for k, v in ref.items() if v[0] != "ok"}
    run.count("reference-ok", len(ref) - len(failing))
    run.count("reference-failing", len(failing))

    def compare(call_id, resp, case, ctx):
        kind, val = ref[call_id]
        run.evaluated()
        if kind == "weird":
            return
        sym = None
        if kind == "ok":
            if resp["outcome"] != "ok":
                sym = "call %s: alone Ok, here %s (%s) %s" % (call_id, resp["outcome"], classify(resp["outcome"], resp.get("message")), ctx)
            elif resp["tokens"] != val:
                sym = "call %s: token stream differs from the fresh-process result %s" % (call_id, ctx)
        elif kind == "err":
            if resp["outcome"] != "err" or resp.get("message") != val:
                sym = "call %s: alone Err(%s), here %s(%s) %s" % (call_id, val[:60], resp["outcome"], (resp.get("message") or "")[:60], ctx)
        else:
            if resp["outcome"] == "ok":
                sym = "call %s: alone it fails (%s), here Ok %s" % (call_id, val, ctx)
            elif classify(resp["outcome"], resp.get("message")) != val:
                sym = "call %s: alone %s, here %s (%s) %s" % (call_id, val, classify(resp["outcome"], resp.get("message")), (resp.get("message") or "")[:80], ctx)
        if sym:
            run.violation(case, sym)
            return False
        run.held()
        return True

    def check_events(events, case):
        """the cache event log (hook H2) as an OBSERVATION: which fills, hits and failed fills happened, in lock order. The
        pattern "one fill per key, then only hits" is what the pinned implementation does, but the property does not ask for
        it (a cache that evicts, refills or fills outside the lock is as pure as this one as long as every call's result is
        right - and that is judged by `compare` on every call). Departures from the pattern are therefore counted and
        sampled in the evidence, never reported as violations."""
        state = {}
        for cache, key, kind, tid in events:
            run.count("cache-events")
            run.count("cache-" + kind)
            k = (cache, key)
            st = state.get(k, "absent")
            odd = None
            if kind == "hit" and st != "filled":
                odd = "hit on %s %s in state %s" % (cache, os.path.basename(key), st)
            elif kind == "miss-filled":
                if st == "filled":
                    odd = "second fill of %s %s" % (cache, os.path.basename(key))
                state[k] = "filled"
            elif kind == "miss-failed" and st == "filled":
                odd = "failed fill of the already filled key %s %s" % (cache, os.path.basename(key))
            if odd:
                run.count("cache-log-departures-from-fill-once")
                notes = run.extra.setdefault("cache_log_departures", [])
                if len(notes) < 5:
                    notes.append({"case": case["id"], "what": odd})
        run.held()

    exe = build.bin_path("gendrv")

    class Drv:
        """one driver process under the deadlock monitor and the (inconclusive-only) wall-clock watchdog"""
        def __init__(self, mode, text, wall_s):
            r = watched_run([exe, mode], text.encode(), wall_s=wall_s, cwd=cwd)
            self.stdout = r["stdout"].decode("utf-8", "replace")
            self.stderr = r["stderr_bytes"].decode("utf-8", "replace")
            self.returncode = r["exit"] if r["signal"] is None else -r["signal"]
            self.deadlock = r["deadlock"] and "all %d thread(s) in a futex wait without timeout and never scheduled again" % r["deadlock_threads"]
            self.timed_out = r["timed_out"]
    # ---- (1) sequential histories, one process each
    n_hist = run.size(24, 800)

    def run_history(hi):
        r = run.sub_rng("h%d" % hi)
        n = r.randint(20, 200 if not run.quick() else 90)
        # bias: start some histories with a failing call, so that everything after it runs "after a failure"
        seq = [r.choice(calls)["id"] for _ in range(n)]
        if hi % 2 == 0:
            seq[0] = r.choice(sorted(failing)) if failing else seq[0]
        reqs = [dict(by_id[c], events=True) for c in seq]
        p = Drv("serve", "".join(json.dumps(q) + "\n" for q in reqs), 600)
        outs = [json.loads(l) for l in p.stdout.splitlines()]
        return hi, seq, outs, p
    with ThreadPoolExecutor(NCPU) as ex:
        hist = list(ex.map(run_history, range(n_hist)))
    for hi, seq, outs, p in hist:
        case = {"id": "history%d" % hi, "corpus": "clean", "kind": "history", "sequence": seq, "calls": {c: by_id[c] for c in sorted(set(seq))}}
        if len(outs) != len(seq):
            prev = ",".join(seq[max(0, len(outs) - 4):len(outs)])
            if p.deadlock:
                run.violation(case, "deadlock in call %s (position %d of a %d-call history; previous calls: %s): %s" % (seq[len(outs)], len(outs), len(seq), prev, p.deadlock))
            elif p.timed_out:
                run.inconclusive_case(case["id"], "wall-clock watchdog fired after %d of %d calls" % (len(outs), len(seq)))
            else:
                run.violation(case, "driver died after %d of %d calls (exit %s)" % (len(outs), len(seq), p.returncode))
            continue
        seen_failure = False
        events = []
        for i, (cid, o) in enumerate(zip(seq, outs)):
            run.count("history-calls")
            if cid in failing:
                run.count("failing-calls-in-histories")
            if seen_failure:
                run.count("calls-after-a-failure")
            okc = compare(cid, o, case, "(position %d of a %d-call history; previous calls: %s)" % (i, len(seq), ",".join(seq[max(0, i - 4):i])))
            events += o.get("events", [])
            if cid in failing:
                seen_failure = True
            if okc is False:
                break
        check_events(events, case)
        run.nontrivial("h", seq)
        if hi < 2:
            run.sample({"kind": "history", "sequence": seq[:40], "outcomes": [o["outcome"] for o in outs[:40]], "events": events[:12]}, limit=4)
    # ---- (1b) many distinct files in one process, then the early ones again (a cache that forgets must forget correctly)
    many_dir = os.path.join(root, "tree", "many")
    os.makedirs(many_dir)
    many = []
    nmany = run.size(80, 400)
    for i in range(nmany):
        sp = os.path.join(many_dir, "s%03d.graphql" % i)
        qp = os.path.join(many_dir, "q%03d.graphql" % i)
        open(sp, "w").write("type Query { f%03d: Int g: T%03d }\ntype T%03d { v%03d: String }\n" % (i, i, i, i))
        open(qp, "w").write("query M%03d { f%03d g { v%03d } }\n" % (i, i, i))
        many.append({"id": "m%d" % i, "schema_path": sp, "query_path": qp, "options": OPTS[0], "want": ["tokens"]})
    with ThreadPoolExecutor(NCPU) as ex:
        mrefs = list(ex.map(lambda c: run_gendrv_one(c, wall_s=60, cwd=cwd), many))
    for c, r in zip(many, mrefs):
        resp = r.get("response")
        ref[c["id"]] = ("ok", resp["tokens"]) if (r["exit"] == 0 and resp) else ("weird", "exit=%s" % r["exit"])
        by_id[c["id"]] = c
    seq = [c["id"] for c in many] + [c["id"] for c in many[: nmany // 2]] + [rng.choice(many)["id"] for _ in range(nmany // 2)]
    p = Drv("serve", "".join(json.dumps(dict(by_id[c], events=True)) + "\n" for c in seq), 900)
    outs = [json.loads(l) for l in p.stdout.splitlines()]
    case = {"id": "many-files", "corpus": "clean", "kind": "history", "sequence": seq[:50] + ["..."], "distinct_files": 2 * nmany}
    if len(outs) != len(seq) and p.timed_out:
        run.inconclusive_case(case["id"], "wall-clock watchdog fired in the many-files history")
    elif len(outs) != len(seq):
        run.violation(case, "driver %s after %d of %d calls in the many-files history" % ("deadlocked (%s)" % p.deadlock if p.deadlock else "died", len(outs), len(seq)))
    else:
        events = []
        for i, (cid, o) in enumerate(zip(seq, outs)):
            run.count("many-files-calls")
            if compare(cid, o, case, "(position %d of the many-files history: %d distinct schema and query files, then repeats)" % (i, nmany)) is False:
                break
            events += o.get("events", [])
        check_events(events, case)
    # ---- (2) stampedes
    n_st = run.size(12, 400)
    orders = set()

    def run_stampede(si):
        r = run.sub_rng("s%d" % si)
        nt = r.choice([2, 3, 4, 8, 16])
        hot = r.sample(calls, 4)
        if si % 3 == 1:
            hot = [c for c in calls if c.get("deep")]      # every third stampede: all threads in deeply nested documents at once
        threads, sleeps = [], []
        for t in range(nt):
            k = r.randint(3, 8)
            threads.append([r.choice(hot if r.random() < 0.7 else calls) for _ in range(k)])
            sleeps.append([r.choice([0, 0, 0, 50, 150, 300]) for _ in range(k)])
        job = {"threads": threads, "sleeps_us": sleeps}
        if si % 3 == 1:
            # lockstep stampede over the deeply nested documents: 16 threads x 10 calls, every call released together
            nt = 16
            threads = [[r.choice(hot) for _ in range(10)] for _ in range(nt)]
            job = {"threads": threads, "sleeps_us": [[0] * 10 for _ in range(nt)], "lockstep": True}
        p = Drv("stampede", json.dumps(job), 600)
        try:
            out = json.loads(p.stdout)
        except ValueError:
            out = None
        return si, threads, out, p, p.stderr[-300:]
    with ThreadPoolExecutor(4) as ex:   # few at a time: the stampedes themselves use up to 16 threads
        sts = list(ex.map(run_stampede, range(n_st)))
    for si, threads, out, p, err in sts:
        ids = [[c["id"] for c in t] for t in threads]
        case = {"id": "stampede%d" % si, "corpus": "clean", "kind": "stampede", "threads": ids, "calls": {c["id"]: by_id[c["id"]] for t in threads for c in t}}
        if out is None and p.timed_out:
            run.inconclusive_case(case["id"], "wall-clock watchdog fired in a stampede")
            continue
        if out is None:
            run.violation(case, ("stampede deadlocked: %s" % p.deadlock) if p.deadlock else "stampede driver died (exit %s): %s" % (p.returncode, err))
            continue
        ok = True
        for ti, (t, res) in enumerate(zip(threads, out["results"])):
            for ci, (c, o) in enumerate(zip(t, res)):
                run.count("stampede-calls")
                if compare(c["id"], o, case, "(thread %d of %d, call %d)" % (ti, len(threads), ci)) is False:
                    ok = False
                    break
            if not ok:
                break
        check_events(out["events"], case)
        order = tuple(e[3] for e in out["events"])
        # normalise thread ids to first-appearance indices: the interleaving pattern
        m = {}
        sig = tuple(m.setdefault(t, len(m)) for t in order)
        orders.add((len(threads), sig))
        run.nontrivial("s", ids, sig)
        if si < 2:
            run.sample({"kind": "stampede", "threads": ids, "lock_order": list(sig)[:40], "events": out["events"][:8]}, limit=4)
    run.counters["distinct-lock-orders"] = len(orders)
    # ---- (3) Miri
    miri_seeds = run.size(4, 48)
    if os.environ.get("VERIF_SKIP_MIRI"):     # authoring aid for cross-evaluation of seeded changes; leaves the run below its floor
        miri = {"status": "skipped"}
    else:
        miri = run_miri(run, root, miri_seeds)
    run.extra["miri"] = miri
    # ---- (4) ThreadSanitizer: whole stampedes (16 threads, the real call pool) in an instrumented driver
    if os.environ.get("VERIF_SKIP_MIRI"):
        run.extra["tsan"] = {"status": "skipped"}
    else:
        run.extra["tsan"] = run_tsan(run, root, cwd, calls, by_id, compare, check_events)
    cli_histories(run, root)
    shutil.rmtree(root, ignore_errors=True)
    return run.finish(floor=FLOOR if run.tier == "quick" else {k: (v * 20 if k not in ("distinct-lock-orders", "miri-runs", "tsan-runs", "cli-history-steps", "many-files-calls") else (v * 4 if k != "cli-history-steps" else v)) for k, v in FLOOR.items()})


MIRI_SCHEMA_A = "type Query { a: Int b: B }\ntype B { c: String }\n"
MIRI_SCHEMA_B = "type Query { z: ID! }\n"


def run_miri(run, root, nseeds):
    """reduced stampede (4 threads x 3 calls, two tiny schemas, one missing file) under the Miri interpreter"""
    d = os.path.join(root, "miri")
    os.makedirs(d)
    open(os.path.join(d, "a.graphql"), "w").write(MIRI_SCHEMA_A)
    open(os.path.join(d, "b.graphql"), "w").write(MIRI_SCHEMA_B)
    open(os.path.join(d, "qa.graphql"), "w").write("query Q { a b { c } }\n")
    open(os.path.join(d, "qb.graphql"), "w").write("query Q { z }\n")

    def c(s, q):
        return {"id": s + q, "schema_path": os.path.join(d, s), "query_path": os.path.join(d, q), "options": {"mode": "cli"}, "want": ["tokens"]}
    ca, cb, cm = c("a.graphql", "qa.graphql"), c("b.graphql", "qb.graphql"), c("missing.graphql", "qa.graphql")
    job = {"threads": [[ca, cb, ca], [cb, ca, cm], [ca, cm, cb], [cm, cb, ca]], "sleeps_us": []}
    jp = os.path.join(d, "job.json")
    json.dump(job, open(jp, "w"))
    def miri_env(seed):
        env = build.cargo_env({"CARGO_TARGET_DIR": os.path.join(build.BUILD, "target-miri"),
                               "MIRIFLAGS": "-Zmiri-disable-isolation -Zmiri-seed=%d" % seed})
        env["RUSTFLAGS"] = build.RUSTFLAGS
        return env
    cmd = ["cargo", "+nightly", "miri", "run", "--offline", "-q", "-p", "gendrv", "--", "stampede", jp]

    def one(seed):
        # one interpreter process per seed (with -Zmiri-many-seeds the runs share one stdout and interleave)
        try:
            return subprocess.run(cmd, cwd=build.HARNESS, env=miri_env(seed), capture_output=True, text=True, timeout=run.size(900, 1800))
        except subprocess.TimeoutExpired:
            return None
    first = one(0)   # also builds the interpreter's sysroot and the driver once
    procs = [first]
    if first is not None and first.returncode == 0 and nseeds > 1:
        with ThreadPoolExecutor(NCPU) as ex:
            procs += list(ex.map(one, range(1, nseeds)))
    if any(p is None for p in procs):
        run.inconclusive_case("miri", "a miri run exceeded its wall-clock budget")
        procs = [p for p in procs if p is not None]
        if not procs:
            return {"status": "timeout"}
    outs = []
    for p in procs:
        for line in p.stdout.splitlines():
            try:
                outs.append(json.loads(line))
            except ValueError:
                pass

    class P:
        pass
    p = P()
    p.stderr = "\n".join(q.stderr for q in procs)
    p.returncode = max(q.returncode for q in procs)
    ub = [l for l in p.stderr.splitlines() if "Undefined Behavior" in l or "Data race" in l or "data race" in l]
    res = {"status": "ran", "seeds": nseeds, "runs_completed": len(outs), "exit": p.returncode, "ub_reports": ub[:5]}
    case = {"id": "miri", "corpus": "clean", "kind": "miri", "job": job}
    run.count("miri-runs", len(outs))
    if ub:
        run.violation(case, "miri: %s" % ub[0][:200], {"stderr": p.stderr[-2000:]})
        return res
    if p.returncode != 0 or not outs:
        # interpreter limitation or build problem: not a verdict about the property
        run.inconclusive_case("miri", "miri exited %s without a UB report: %s" % (p.returncode, p.stderr[-400:]))
        return res
    # determinism across schedules: every seed's per-call outcomes must be identical
    canon = None
    orders = set()
    for o in outs:
        run.evaluated()
        view = [[(r["id"], r["outcome"], r.get("tokens")) for r in t] for t in o["results"]]
        if canon is None:
            canon = view
        if view != canon:
            run.violation(case, "miri: per-call results differ between schedules")
            break
        run.held()
        m = {}
        orders.add(tuple(m.setdefault(e[3], len(m)) for e in o["events"]))
    res["distinct_lock_orders"] = len(orders)
    run.count("miri-distinct-lock-orders", len(orders))
    return res


def cli_histories(run, root):
    """the CLI delivery of the same function, across PROCESSES that share a file system: a sequence of `generate` invocations
    writing to one output directory (different options, a different query file of the same base name, the same invocation
    again) - each must leave exactly what the same invocation leaves in a fresh directory. What an earlier process left
    behind (an output newer than the inputs, a stale file) is not an input."""
    import subprocess
    from .c02 import run_cli, DEADLOCK_RC
    d = os.path.join(root, "cli")
    os.makedirs(os.path.join(d, "other"))
    sp = os.path.join(d, "schema.graphql")
    open(sp, "w").write("type Query { a: A n: Int }\ntype A { id: ID name: String a: A }\n")
    qp = os.path.join(d, "ops.graphql")
    open(qp, "w").write("query First { a { id } }\nquery Second { n a { name a { id } } }\n")
    qp2 = os.path.join(d, "other", "ops.graphql")      # same base name, other document
    open(qp2, "w").write("query Third { n }\n")
    steps = [("plain", [qp]), ("response derives", [qp, "-O", "Debug,Clone"]), ("selected operation", [qp, "--selected-operation", "Second"]),
             ("module visibility", [qp, "-m", "crate"]), ("plain again", [qp]), ("other file, same base name", [qp2]), ("deprecated deny + other variant", [qp, "-d", "deny", "--fragments-other-variant"]),
             ("formatted", [qp, "-O", "Debug"]), ("plain a third time", [qp])]
    shared = os.path.join(d, "shared_out")
    os.makedirs(shared)
    seq_label = []
    for k, (label, argv) in enumerate(steps):
        fmt = [] if label == "formatted" else ["--no-formatting"]
        alone = os.path.join(d, "alone%d" % k)
        os.makedirs(alone)
        outs = []
        for outdir in (alone, shared):
            try:
                rc, so, se = run_cli(["generate", "--schema-path", sp] + argv + fmt + ["-o", outdir], cwd=d, timeout=240)
            except subprocess.TimeoutExpired:
                rc, se = None, "watchdog"
            f = os.path.join(outdir, "ops.rs")
            outs.append((rc, open(f).read() if os.path.exists(f) else None, se))
        seq_label.append(label)
        run.evaluated()
        run.count("cli-history-steps")
        case = {"id": "cli-history-step%d" % k, "corpus": "clean", "kind": "cli-history", "steps": list(seq_label), "argv": argv}
        (rc_a, text_a, se_a), (rc_s, text_s, se_s) = outs
        if rc_a is None or rc_s is None:
            run.inconclusive_case(case["id"], "wall-clock watchdog fired on a CLI invocation")
        elif DEADLOCK_RC in (rc_a, rc_s):
            run.violation(case, "CLI invocation deadlocked: %s" % (se_a + se_s)[:160])
        elif rc_a != 0 or text_a is None:
            run.inconclusive_case(case["id"], "the reference invocation itself failed (exit %s): %s" % (rc_a, se_a[-160:]))
        elif rc_s != rc_a or text_s != text_a:
            i = next((i for i, (x, y) in enumerate(zip(text_s or "", text_a)) if x != y), 0)
            run.violation(case, "step %d (%s) after %s: the shared output directory holds something else than the same invocation leaves in a fresh one (exit %s / %s, first difference at byte %d: %r vs %r)"
                          % (k, label, seq_label[:-1][-3:], rc_s, rc_a, i, (text_s or "")[i:i + 40], text_a[i:i + 40]))
        else:
            run.held()
            run.nontrivial("cli-history", k, label)


def build_tsan():
    """gendrv (with /repo's crates and std itself) instrumented by ThreadSanitizer; None when this toolchain cannot do it"""
    tdir = os.path.join(build.BUILD, "target-tsan")
    env = build.cargo_env({"CARGO_TARGET_DIR": tdir})
    env["RUSTFLAGS"] = "-Zsanitizer=thread " + build.RUSTFLAGS
    p = subprocess.run(["cargo", "+nightly", "build", "--offline", "-Zbuild-std", "--target", "x86_64-unknown-linux-gnu", "-p", "gendrv"],
                       cwd=build.HARNESS, env=env, capture_output=True, text=True)
    exe = os.path.join(tdir, "x86_64-unknown-linux-gnu", "debug", "gendrv")
    if p.returncode != 0 or not os.path.exists(exe):
        return None, p.stderr[-600:]
    return exe, ""


def run_tsan(run, root, cwd, calls, by_id, compare, check_events):
    """second opinion on the one lock there is (and on anything a change adds next to it): the stampede workload - failing
    calls included, 8-16 threads, the deep documents in lockstep - in a driver where every memory access of the generator, its
    dependencies and std is instrumented. A race report is a refuting event; the calls' results are compared with the
    fresh-process table like everywhere else (the instrumented driver is 5-10x slower, which shifts every interleaving)."""
    exe, err = build_tsan()
    if exe is None:
        run.inconclusive_case("tsan", "the ThreadSanitizer build of the driver failed: %s" % err[-300:])
        return {"status": "build-failed"}
    d = os.path.join(root, "tsan")
    os.makedirs(d)
    n = run.size(4, 48)
    deep = [c for c in calls if c.get("deep")]

    def one(si):
        r = run.sub_rng("tsan%d" % si)
        if si % 2 == 0:
            threads = [[r.choice(deep) for _ in range(5)] for _ in range(16)]
            job = {"threads": threads, "sleeps_us": [[0] * 5 for _ in range(16)], "lockstep": True}
        else:
            nt = r.choice([8, 16])
            hot = r.sample(calls, 5)
            threads = [[r.choice(hot if r.random() < 0.7 else calls) for _ in range(r.randint(3, 6))] for _ in range(nt)]
            job = {"threads": threads, "sleeps_us": [[r.choice([0, 0, 50, 200]) for _ in t] for t in threads]}
        logp = os.path.join(d, "report%d" % si)
        env = dict(os.environ, TSAN_OPTIONS="halt_on_error=0:exitcode=66:second_deadlock_stack=1:log_path=%s" % logp, RUST_BACKTRACE="0")
        res = watched_run([exe, "stampede"], json.dumps(job).encode(), wall_s=900, cwd=cwd, env=env)
        import glob
        text = "".join(open(f, errors="replace").read() for f in sorted(glob.glob(logp + ".*")))
        return si, threads, res, text
    with ThreadPoolExecutor(4) as ex:
        outs = list(ex.map(one, range(n)))
    reports = {}
    completed = 0
    for si, threads, res, text in outs:
        ids = [[c["id"] for c in t] for t in threads]
        case = {"id": "tsan-stampede%d" % si, "corpus": "clean", "kind": "tsan-stampede", "threads": ids, "calls": {c["id"]: by_id[c["id"]] for t in threads for c in t}}
        blocks = [b for b in text.split("==================") if "WARNING: ThreadSanitizer" in b]
        for b in blocks:
            head = b.strip().splitlines()[0]
            frames = [l.strip() for l in b.splitlines() if re.match(r"\s+#\d+ ", l)]
            own = next((f for f in frames if "graphql" in f), frames[0] if frames else "")
            key = (head.split("(pid")[0].strip(), re.sub(r"0x[0-9a-f]+|:\d+", "", own))
            if key not in reports:
                reports[key] = b
                run.violation(case, "ThreadSanitizer: %s at %s" % (key[0][:80], key[1][:160]), {"report": b[:3000]})
        try:
            out = json.loads(res["stdout"].decode("utf-8", "replace"))
        except ValueError:
            out = None
        if out is None:
            if res["timed_out"]:
                run.inconclusive_case(case["id"], "wall-clock watchdog fired in an instrumented stampede")
            elif res["deadlock"]:
                run.violation(case, "instrumented stampede deadlocked (%d threads)" % res["deadlock_threads"])
            elif not blocks:
                run.inconclusive_case(case["id"], "instrumented driver died without a report (exit %s signal %s): %s" % (res["exit"], res["signal"], res["stderr_bytes"][-200:]))
            continue
        completed += 1
        okc = True
        for ti, (t, rs) in enumerate(zip(threads, out["results"])):
            for ci, (c, o) in enumerate(zip(t, rs)):
                run.count("tsan-stampede-calls")
                if compare(c["id"], o, case, "(ThreadSanitizer build, thread %d of %d, call %d)" % (ti, len(threads), ci)) is False:
                    okc = False
                    break
            if not okc:
                break
        check_events(out["events"], case)
    run.count("tsan-runs", completed)
    return {"status": "ran", "stampedes": n, "completed": completed, "race_reports": len(reports), "first_report": (list(reports.values()) or [""])[0][:1500]}


def replay(run, rec):
    print("C08 histories depend on the generated directory tree: re-run `VERIF_SEED=%d ./check C08 --tier %s`" % (rec.get("seed", 0), rec.get("tier", "quick")))
    return main(run)
