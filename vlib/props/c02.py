"""C02 - supported inputs are accepted and the generated code always type-checks.
Monitor: generator result + rustc JSON diagnostics attributed per case, for the three delivery
forms (library token stream, CLI-written file, derive macro) and for a consumer whose only
dependency is graphql_client."""
import json
import os
import subprocess

from .. import build
from .. import cases as C
from ..factory import Factory, support_code
from ..gen_schema import gen_schema
from ..gen_query import gen_document
from ..gen_options import sample_options
from ..model import Schema, render_document
from .. import hazards

RULE = ("clean-grammar (schema, document) pairs x option sets sampled from every documented option (response / variables derives, "
        "normalization, deprecation strategy, other-variant, skip-none, custom scalars module, extern enums, visibility) x "
        "delivery form {library (all operations / one selected operation), CLI-written file, derive with serde, derive in a "
        "consumer whose only dependency is graphql_client}; each case is compiled by the real rustc (metadata only) and "
        "diagnostics are attributed to the case by source file. Fixed cases: every Rust keyword at every name position, variant-name "
        "sweeps, fragment-recursion patterns, list-literal defaults of list variables with non-null built-in scalar elements "
        "(nullable / required / nested / empty lists). Non-trivial = every case (each has >= 1 composite selection); "
        "distinct by (schema, document, options, form)")

FLOOR = {"form:library": 40, "form:library-one-op": 5, "form:cli": 4, "form:derive": 8, "form:derive-noserde": 8, "rustc-accepted": 60}


def attr_lit(s):
    return json.dumps(s)


def derive_source(case, schema_rel, query_rel):
    """what a user writes: one derive per operation of the document"""
    o = case["options"]
    doc = case["doc_model"] or {"operations": [{"name": n} for n in case.get("operation_names", ["Q"])]}
    parts = []
    keys = ['schema_path = %s' % attr_lit(schema_rel), 'query_path = %s' % attr_lit(query_rel)]
    for k, a in (("response_derives", "response_derives"), ("variables_derives", "variables_derives"),
                 ("normalization", "normalization"), ("deprecation", "deprecated"), ("custom_scalars_module", "custom_scalars_module")):
        if o.get(k) is not None:
            keys.append("%s = %s" % (a, attr_lit(o[k])))
    if o.get("other_variant"):
        keys.append('fragments_other_variant = "true"')
    if o.get("skip_none"):
        keys.append("skip_serializing_none")
    if o.get("extern_enums"):
        keys.append("extern_enums(%s)" % ", ".join(attr_lit(e) for e in o["extern_enums"]))
    # the order of the attribute's items is the user's choice: a different (deterministic) order per case
    import random as _random
    _r = _random.Random("attr-order:" + str(case.get("id")))
    _r.shuffle(keys)
    # the item the calling check depends on (`attr_focus`) takes, in turn, the places where an attribute scanner is most likely
    # to go wrong: directly after the bare flag (no `= value`), directly before it, first, last
    focus = [k for k in keys if case.get("attr_focus") and k.startswith(case["attr_focus"])]
    if focus:
        f = focus[0]
        keys.remove(f)
        flag = "skip_serializing_none" in keys
        mode = case["attr_mode"] % 4 if "attr_mode" in case else _r.randrange(4)
        if mode == 0 and flag:
            keys.insert(keys.index("skip_serializing_none") + 1, f)
        elif mode == 1 and flag:
            keys.insert(keys.index("skip_serializing_none"), f)
        elif mode == 2:
            keys.insert(0, f)
        else:
            keys.append(f)
    elif "skip_serializing_none" in keys and len(keys) > 1 and _r.random() < 0.6:
        keys.remove("skip_serializing_none")
        lists = [i for i, k in enumerate(keys) if k.startswith("extern_enums(")]
        if lists and _r.random() < 0.6:
            keys.insert(lists[0] + 1, "skip_serializing_none")      # a bare flag directly behind a list-valued item
        else:
            keys.insert(_r.randrange(len(keys) + 1), "skip_serializing_none")
    vis = {"pub": "pub ", "pub(crate)": "pub(crate) ", "inherited": "", None: ""}[o.get("visibility")]
    rust = (o.get("normalization") or "").strip().lower() == "rust"
    for op in doc["operations"]:
        # under `normalization = "rust"` the struct is named in Rust style and matched against the normalised operation name
        from .. import names as _names
        sname = _names.camel(op["name"]) if rust else op["name"]
        parts.append("#[derive(graphql_client::GraphQLQuery)]\n#[graphql(%s)]\n%sstruct %s;\n" % (", ".join(keys), vis, sname))
    return "".join(parts)


DEADLOCK_RC = -999


def run_cli(args, cwd=None, timeout=120):
    exe = build.build_cli()
    env = build.cargo_env()
    env.pop("RUSTFLAGS", None)
    from ..factory import watched_run
    r = watched_run([exe] + args, b"", wall_s=timeout, cwd=cwd, env=env)
    if r["deadlock"]:
        # the CLI and what it spawned (rustfmt) wait for each other for good: reported as a distinguished exit status
        return DEADLOCK_RC, r["stdout"].decode("utf-8", "replace"), "DEADLOCK: every thread of the command's process tree (%d) is parked in a wait only the tree itself could end, none scheduled for 2 s\n" % r["deadlock_threads"] + r["stderr_bytes"].decode("utf-8", "replace")
    if r["timed_out"]:
        raise subprocess.TimeoutExpired([exe] + args, timeout)
    rc = r["exit"] if r["signal"] is None else -r["signal"]
    return rc, r["stdout"].decode("utf-8", "replace"), r["stderr_bytes"].decode("utf-8", "replace")


def cli_flags(o):
    f = []
    if o.get("response_derives") is not None:
        f += ["-O", o["response_derives"]]
    if o.get("variables_derives") is not None:
        f += ["-I", o["variables_derives"]]
    if o.get("deprecation"):
        f += ["-d", o["deprecation"]]
    if o.get("visibility") is not None:
        f += ["-m", {"pub": "pub", "inherited": "private", "pub(crate)": "crate"}[o["visibility"]]]
    if o.get("custom_scalars_module"):
        f += ["-p", o["custom_scalars_module"]]
    if o.get("other_variant"):
        f += ["--fragments-other-variant"]
    if o.get("operation_name"):
        f += ["--selected-operation", o["operation_name"]]
    return f


def gen_cases(run, n):
    rng = run.rng
    out = []
    schema = None
    for i in range(n):
        if i % 3 == 0:
            schema = gen_schema(rng, odd_type_names=(i % 6 == 0), deprecations=0.15)
        doc, feats = gen_document(schema, rng)
        cid = "c%d" % i
        r = i % 10
        form = "library"
        if r in (6,):
            form = "cli"
        elif r in (7, 8):
            form = "derive"
        elif r in (9,):
            form = "derive-noserde"
        if form == "library" and len(doc["operations"]) > 1 and rng.random() < 0.6:
            form = "library-one-op"
        opts = sample_options(rng, schema, cid, allow_extern=form in ("library", "library-one-op", "derive"),
                              allow_module=form != "derive-noserde")
        if form == "cli":
            opts.pop("normalization", None)   # the CLI has no normalization flag
            opts.pop("skip_none", None)
            if schema.of_kind("scalar"):
                opts["custom_scalars_module"] = "crate::%s::scalars" % cid
            if opts.get("visibility") is None:
                opts["visibility"] = "pub"
        if form == "library-one-op":
            opts["operation_name"] = rng.choice(doc["operations"])["name"]
        if form.startswith("derive"):
            opts["mode"] = "derive"
        c = C.make_case(cid, schema, doc, rng, options=opts, features=feats)
        if i % 2 == 1:
            c["hostile_scope"] = True       # the consumer's module has its own `Result` alias and `Error` type
        if form in ("library", "library-one-op", "cli"):
            c["options"]["mode"] = "cli"
        if form == "derive-noserde":
            c["options"]["response_derives"] = rng.choice([None, "Debug", "Clone,PartialEq", "Debug,PartialEq"])
            c["options"]["variables_derives"] = rng.choice([None, "Debug", "Clone"])
            c["options"] = {k: v for k, v in c["options"].items() if v is not None}
        c["form"] = form
        out.append(c)
    return out


def variant_name_sweep_cases(rng):
    """union / interface members whose names fall on both sides of `Unknown`, `Other` and of each other in every sort order (ASCII,
    case-insensitive, by length), with and without the other-variant option: whatever order the variants are emitted in, the
    module must compile (serde wants its catch-all variant last)"""
    from ..model import Schema, T, NN
    members = ["Alpha", "Video", "Workspace", "user", "zebra_crossing", "Unit", "Unknowable", "_Hidden"]
    s = Schema()
    s.add("Thing", {"kind": "interface", "fields": [{"name": "id", "type": NN(T("ID")), "args": [], "deprecated": None}]})
    for m in members:
        s.add(m, {"kind": "object", "implements": ["Thing"], "fields": [{"name": "id", "type": NN(T("ID")), "args": [], "deprecated": None},
                                                                       {"name": "own%s" % m.strip("_").capitalize(), "type": T("Int"), "args": [], "deprecated": None}]})
    s.add("Any", {"kind": "union", "members": list(members)})
    s.add("Query", {"kind": "object", "implements": [], "fields": [{"name": "thing", "type": T("Thing"), "args": [], "deprecated": None},
                                                                   {"name": "things", "type": T("Thing"), "args": [], "deprecated": None},
                                                                   {"name": "any", "type": T("Any"), "args": [], "deprecated": None}]})
    sel = [["field", None, "thing", None, [["typename"], ["field", None, "id", None, None]] + [["inline", m, [["field", None, "own%s" % m.strip("_").capitalize(), None, None]]] for m in members[::2]]],
           ["field", None, "things", None, [["typename"]]],
           ["field", None, "any", None, [["typename"]] + [["inline", m, [["field", None, "id", None, None]]] for m in members[1::2]]]]
    doc = {"operations": [{"kind": "query", "name": "VariantNames", "vars": [], "sel": sel}], "fragments": []}
    out = []
    for i, (other, norm, form) in enumerate([(True, None, "library"), (True, "rust", "library"), (True, None, "derive"), (False, None, "library"), (False, "rust", "derive"), (True, "rust", "derive")]):
        opts = {"other_variant": other}
        if norm:
            opts["normalization"] = norm
        if form == "derive":
            opts["mode"] = "derive"
        c = C.make_case("vn%d" % i, s, doc, rng, options=opts, fmt="sdl" if i % 2 == 0 else "json", features=["variant-name-sweep"])
        if form == "library":
            c["options"]["mode"] = "cli"
        c["form"] = form
        out.append(c)
    return out


def keyword_sweep_cases(rng):
    """every keyword of the Rust reference at once, at every name position, in four documents (normalization none / rust,
    library / derive form): what C11 does one name at a time, here as 'a supported input' in bulk"""
    from ..model import Schema, T, NN
    from .. import names as _n
    kws = [k for k in _n.KEYWORDS if k != "Self"]
    evals = [k for k in kws if k not in ("true", "false", "null")]
    s = Schema()
    s.add("KwEnum", {"kind": "enum", "values": evals})
    s.add("KwIn", {"kind": "input", "one_of": False, "fields": [[k, T("Int")] for k in kws]})
    s.add("KwOne", {"kind": "input", "one_of": True, "fields": [[k, T("Int")] for k in kws]})
    s.add("KwObj", {"kind": "object", "implements": [], "fields": [{"name": k, "type": T("Int"), "args": [], "deprecated": None} for k in kws] +
                    [{"name": "plain", "type": T("String"), "args": [], "deprecated": None}, {"name": "e", "type": NN(T("KwEnum")), "args": [], "deprecated": None}]})
    s.add("Query", {"kind": "object", "implements": [], "fields": [{"name": "obj", "type": T("KwObj"), "args": [], "deprecated": None}]})
    sel = [["field", None, "obj", None, [["field", None, k, None, None] for k in kws] + [["field", None, "e", None, None]]],
           ["field", "aliased", "obj", None, [["field", k, "plain", None, None] for k in kws]]]
    vs = [{"name": k, "type": T("Int"), "default": None} for k in kws] + [{"name": "kw_in", "type": T("KwIn"), "default": None}, {"name": "kw_one", "type": T("KwOne"), "default": None},
                                                                            {"name": "kw_enum", "type": T("KwEnum"), "default": None}]
    doc = {"operations": [{"kind": "query", "name": "KwSweep", "vars": vs, "sel": sel}], "fragments": []}
    out = []
    for i, (norm, form) in enumerate([(None, "library"), ("rust", "library"), (None, "derive"), ("rust", "derive")]):
        opts = {"normalization": norm} if norm else {}
        if form == "derive":
            opts["mode"] = "derive"
        c = C.make_case("kw%d" % i, s, doc, rng, options=opts, fmt="sdl" if i % 2 == 0 else "json", features=["keyword-sweep"])
        if form == "library":
            c["options"]["mode"] = "cli"
        c["form"] = form
        out.append(c)
    return out


def list_default_cases(rng):
    """list literals as defaults of list-typed variables whose elements are non-null built-in scalars (the shapes outside
    finding K6): nullable and required outer lists, nested lists, empty lists, next to scalar defaults (C02-r10m1)"""
    from ..model import Schema, T, NN, L
    s = Schema()
    s.add("Query", {"kind": "object", "implements": [], "fields": [{"name": "x", "type": T("Int"), "args": [], "deprecated": None}]})
    shapes = [("Int", "1", "2"), ("String", '"a"', '"b \\" c"'), ("Float", "1.5", "2.5"), ("Boolean", "true", "false")]
    vs = []
    for n, a, b in shapes:
        e = NN(T(n))
        vs += [{"name": "ol%s" % n, "type": L(e), "default": "[%s, %s]" % (a, b)},
               {"name": "rl%s" % n, "type": NN(L(e)), "default": "[%s]" % a},
               {"name": "oe%s" % n, "type": L(e), "default": "[]"},
               {"name": "onl%s" % n, "type": L(NN(L(e))), "default": "[[%s], [%s, %s]]" % (a, b, a)},
               {"name": "rnl%s" % n, "type": NN(L(NN(L(e)))), "default": "[[%s]]" % b},
               {"name": "sc%s" % n, "type": T(n), "default": a}]
    doc = {"operations": [{"kind": "query", "name": "ListDefaults", "vars": vs, "sel": [["field", None, "x", None, None]]}], "fragments": []}
    out = []
    for i, form in enumerate(["library", "derive"]):
        opts = {"mode": "derive"} if form == "derive" else {}
        c = C.make_case("ld%d" % i, s, doc, rng, options=opts, fmt="sdl" if i == 0 else "json", features=["list-default"])
        if form == "library":
            c["options"]["mode"] = "cli"
        c["form"] = form
        out.append(c)
    return out


def execute(run, cases, tag="b0"):
    fac = Factory("%s-%s-%d" % (run.prop, tag, run.seed))
    # the library route for every case (also for cli / derive cases: it tells "generation succeeds")
    lib_cases = [c for c in cases if c["form"] in ("library", "library-one-op")]
    other = [c for c in cases if c["form"] not in ("library", "library-one-op")]
    lib_view = []
    for c in cases:
        if c["form"].startswith("derive"):
            # "generation succeeds" is observed through the library in CLI mode; the derive itself runs inside rustc below
            c2 = dict(c)
            c2["options"] = dict(c["options"], mode="cli")
            lib_view.append(c2)
        else:
            lib_view.append(c)
    gen = fac.generate(lib_view)
    files = {}
    ind = os.path.join(fac.work, "in")
    cli_out = os.path.join(fac.work, "cli_out")
    os.makedirs(cli_out, exist_ok=True)
    pre_fail = {}
    for c in other:
        cid = c["id"]
        sp = [f for f in os.listdir(ind) if f.startswith(cid + ".schema.")][0]
        if c["form"] == "cli":
            od = os.path.join(cli_out, cid)
            os.makedirs(od)
            rc, so, se = run_cli(["generate", "--schema-path", os.path.join(ind, sp), os.path.join(ind, cid + ".query.graphql"),
                                  "-o", od, "--no-formatting"] + cli_flags(c["options"]))
            outf = os.path.join(od, cid + ".query.rs")
            if rc != 0 or not os.path.exists(outf):
                pre_fail[cid] = "cli exit %s: %s" % (rc, se[-300:])
                continue
            # the CLI's file is a module of its own (it starts with an inner attribute): include it by path,
            # next to the custom scalars module it was told about
            files[cid] = support_code(c) + '#[path = %s] pub mod generated;\n' % json.dumps(outf)
            fac.file_owner = getattr(fac, "file_owner", {})
            fac.file_owner[os.path.basename(outf)] = cid
        else:
            files[cid] = support_code(c) + derive_source(c, "../in/" + sp, "../in/" + cid + ".query.graphql")
    verdict = {}
    # library + cli + derive-with-serde in one build; derive-noserde in a build without serde
    grp_a = [c for c in cases if c["form"] != "derive-noserde" and c["id"] not in pre_fail]
    grp_b = [c for c in cases if c["form"] == "derive-noserde"]
    log = os.path.join(fac.work, "derive.log")
    fac.extra_env = {"GRAPHQL_CLIENT_VERIF_LOG": log}
    verdict.update(fac.compile(grp_a, gen, check_only=True, files={k: v for k, v in files.items() if any(c["id"] == k for c in grp_a)}))
    if grp_b:
        fac2 = Factory("%s-%s-%d-noserde" % (run.prop, tag, run.seed))
        fac2.extra_env = {"GRAPHQL_CLIENT_VERIF_LOG": log}
        # relative paths in the derive attributes resolve against this factory's shard dirs: share the input dir
        os.symlink(ind, os.path.join(fac2.work, "in"))
        verdict.update(fac2.compile(grp_b, gen, check_only=True, serde_dep=False, files={c["id"]: files[c["id"]] for c in grp_b}))
        fac2.cleanup()
    derive_log = {}
    if os.path.exists(log):
        for line in open(log):
            try:
                d = json.loads(line)
            except ValueError:
                continue
            if d.get("stage") != "returned":
                derive_log[d.get("struct")] = d
    for c in cases:
        cid = c["id"]
        run.evaluated()
        run.count("form:" + c["form"])
        g = gen[cid]
        failed = None
        if g["outcome"] != "ok":
            failed = "generation-%s: %s" % (g["outcome"], (g.get("message") or "")[:200])
        elif cid in pre_fail:
            failed = pre_fail[cid]
        else:
            v = verdict.get(cid)
            if v == "inconclusive":
                run.inconclusive_case(cid, "build failed without attribution: %s" % (fac.unattributed[:1],))
                continue
            if v != "accepted":
                failed = "rustc %s: %s" % (v.get("code"), v.get("message"))
        if not failed and c["options"].get("extern_enums") and (g.get("inspect") or {}).get("items"):
            # "imported", not "defined": an enum the options declare external must come from the consumer. A module that defines
            # it after all still compiles on its own (the local item shadows the glob import) - and the consumer's type is dead
            from .. import names as _n
            rust = (c["options"].get("normalization") or "").lower() == "rust"
            defined = {it["name"] for it in g["inspect"]["items"] if it["kind"] == "enum" and it.get("path")}
            for e in c["options"]["extern_enums"]:
                if (_n.camel(e) if rust else e) in defined:
                    failed = "the module defines enum %s although extern_enums names it: the consumer's type is shadowed" % (_n.camel(e) if rust else e)
                    run.count("extern-enum-defined-anyway")
                    break
            run.count("extern-enum-cases-inspected")
        if failed:
            run.violation(c, "[%s] %s" % (c["form"], failed))
        else:
            run.held()
            run.count("rustc-accepted")
            run.feature(c["features"])
            run.sample({"form": c["form"], "options": c["options"], "document": c["doc_text"][:600], "schema_format": c["schema_format"]}, limit=4)
        if c["corpus"] != "clean":
            run.witness_result(c["corpus"].split(":")[1], bool(failed))
        run.nontrivial(c["schema_text"], c["doc_text"], c["options"], c["form"])
    run.count("derive-invocations-logged", len(derive_log))
    run.extra.setdefault("timing", []).append(fac.timing)
    fac.cleanup()


def main(run):
    run.rule = RULE
    run.assumptions = ["supported subset = clean document grammar of vlib/gen_query.py (DESIGN.md section 4)",
                       "the consumer supplies `String` for custom scalars and a hand-written serde enum for extern enums",
                       "requested derive traits are implementable for the field types (no Eq/Hash: Float fields)"]
    total = run.size(150, 3000)
    batch = 600
    done = 0
    bi = 0
    while done < total:
        n = min(batch, total - done)
        cs = gen_cases(run, n)
        if bi == 0:
            cs += keyword_sweep_cases(run.rng)
            cs += variant_name_sweep_cases(run.rng)
            cs += list_default_cases(run.sub_rng("list-defaults"))
            # C12's fragment-recursion patterns (every third one) as supported inputs of this property: they must type-check
            from .c12 import fragment_patterns
            for fc in fragment_patterns(run.sub_rng("c12-patterns"))[::3]:
                fc["form"] = "library"
                fc["options"]["mode"] = "cli"
                cs.append(fc)
            for w in hazards.cases_for(run, "C02"):
                w["form"] = w.get("form") or "library"
                cs.append(w)
        for c in cs:
            c["id"] = "b%d%s" % (bi, c["id"])
            if c["options"].get("custom_scalars_module", "").startswith("crate::c"):
                c["options"]["custom_scalars_module"] = c["options"]["custom_scalars_module"].replace("crate::c", "crate::b%dc" % bi, 1)
        execute(run, cs, tag="b%d" % bi)
        done += n
        bi += 1
    return run.finish(floor=FLOOR if run.tier == "quick" else {k: v * 10 for k, v in FLOOR.items()})


def replay(run, rec):
    c = rec["case"]
    c.setdefault("form", "library")
    execute(run, [c], tag="replay")
    return run.finish()
