"""C18 - the derive macro applies exactly the options written in #[graphql(...)].
Monitors: (a) the derive crate's attribute extraction functions (real source file, included by
path into attrdrv) on generated attribute texts, against values known by construction; (b) real
derives in compiled consumer crates with the derive event log (hook H1) on: the options the macro
built, the resolved paths, and its token stream compared with the library called with the written
options."""
import itertools
import json
import os
import shutil
import re
import subprocess

from .. import build
from .. import cases as C
from ..factory import Factory, run_gendrv, gendrv_request, support_code
from ..gen_schema import gen_schema
from ..gen_query import gen_document
from ..model import Schema

RULE = ("(a) attribute texts over all 2^10 subsets of the recognised keys (schema_path, query_path, response_derives, variables_derives, "
        "custom_scalars_module, deprecated, normalization, fragments_other_variant, skip_serializing_none, extern_enums) in random "
        "order, literal styles {plain, escaped (\\\", \\n, \\u{..}), raw r\"..\", r#\"..\"#}, optional trailing comma, odd spacing / "
        "line breaks, surrounding #[derive] / #[allow] / #[doc] attributes, values that spell other key names or flags, four struct "
        "visibilities; each extracted value is compared with the value the text was built from, absent keys with `not found`. "
        "(b) real derives compiled in consumer crates with the hook log on: options == written options (defaults: deprecated warn, "
        "normalization none, other-variant off, skip-none off), paths == CARGO_MANIFEST_DIR/<rel> (rustc's working directory is "
        "elsewhere and holds decoy files under the same relative paths), the token stream the macro RETURNS to rustc (hook) == "
        "library tokens for the same options (whitespace-insensitive); eight struct visibilities incl. pub(in path); every fourth "
        "derive has a twin - the same struct name over the same files in a sibling module with other options - whose returned "
        "tokens must follow its own attribute; every fourth derive names a query file whose NAME contains a backslash (a decoy waits "
        "where a separator rewrite would lead); a quarter reach the schema through a symlinked directory. Non-trivial = text with >= 3 keys or a non-plain literal; distinct by text")

KEYS = ["schema_path", "query_path", "response_derives", "variables_derives", "custom_scalars_module", "deprecated", "normalization",
        "fragments_other_variant", "skip_serializing_none", "extern_enums"]
VALUES = {
    "schema_path": ["schema.graphql", "src/gql/schema.json", "dir with space/s.graphql", "é/schema.gql", "normalization", "a\"b.graphql", "back\\slash.graphql"],
    "query_path": ["q.graphql", "src/q/query one.graphql", "deprecated", "skip_serializing_none", "ü.graphql", "line\nbreak.graphql"],
    "response_derives": ["Debug", "Debug,Clone", "Debug, PartialEq , Clone", "Serialize", "normalization", "extern_enums", ""],
    "variables_derives": ["Debug", "Deserialize, Debug", "Clone,PartialEq", "response_derives", "Default"],
    "custom_scalars_module": ["crate::scalars", "super::custom", "crate :: a :: b", "query_path"],
    "deprecated": ["allow", "warn", "deny", "DENY", "Allow", " warn ", "bogus", "", "skip_serializing_none"],
    "normalization": ["none", "rust", "RUST", "Rust", " rust", "bogus", "deprecated"],
    "fragments_other_variant": ["true", "false", "True", "yes", "", "1"],
}
ENUM_LISTS = [["Color"], ["Color", "Kind"], [], ["color_kind", "É"], ["normalization", "skip_serializing_none"]]
# (twin derives: the same struct name over the same files in a sibling module with other options)
FLOOR = {"attribute-texts": 1024, "extractions-compared": 10000, "style:raw": 100, "style:escaped": 100, "style:hash-raw": 100, "real-derives": 12, "real-derive-options-compared": 12, "real-derive-token-comparisons": 12, "twin-derives-compared": 3}


def lit(v, style):
    if style == "raw" and '"' not in v:
        return 'r"%s"' % v, "raw"
    if style == "hash-raw" and '"#' not in v:
        return 'r#"%s"#' % v, "hash-raw"
    if style == "escaped":
        out = ""
        for ch in v:
            if ch == '"':
                out += '\\"'
            elif ch == "\\":
                out += "\\\\"
            elif ch == "\n":
                out += "\\n"
            elif ord(ch) > 126 or ch in "aeiou":
                out += "\\u{%x}" % ord(ch)
            else:
                out += ch
        return '"%s"' % out, "escaped"
    out = v.replace("\\", "\\\\").replace('"', '\\"').replace("\n", "\\n")
    return '"%s"' % out, "plain"


def build_text(rng, subset, style_bias=None):
    """returns (struct text, expected dict, styles used)"""
    items = []
    exp = {}
    styles = set()
    for k in subset:
        if k == "skip_serializing_none":
            items.append("skip_serializing_none")
            exp["skip_none"] = True
        elif k == "extern_enums":
            vals = rng.choice(ENUM_LISTS)
            parts = []
            for v in vals:
                t, st = lit(v, rng.choice(["plain", "plain", "raw", "escaped"]))
                parts.append(t)
                styles.add(st)
            sep = rng.choice([", ", ",", " , "])
            items.append("extern_enums(%s%s)" % (sep.join(parts), rng.choice(["", ","]) if parts else ""))
            exp["list:extern_enums"] = vals
        else:
            v = rng.choice(VALUES[k])
            t, st = lit(v, style_bias or rng.choice(["plain", "plain", "escaped", "raw", "hash-raw"]))
            styles.add(st)
            eq = rng.choice([" = ", "=", " =", "= ", "\n        =\n        "])
            items.append("%s%s%s" % (k, eq, t))
            exp["attr:" + k] = v
    rng.shuffle(items)
    sep = rng.choice([", ", ",", ",\n    ", " , "])
    body = sep.join(items) + (rng.choice(["", ",", " ,"]) if items else "")
    pre = rng.choice(["", "#[derive(GraphQLQuery)]\n", "#[derive(Debug, GraphQLQuery, Clone)]\n", "/// doc comment with graphql(query_path = \"nope\")\n#[derive(GraphQLQuery)]\n",
                      "#[allow(dead_code)]\n#[derive(GraphQLQuery)]\n", "#[doc = \"normalization = \\\"rust\\\"\"]\n"])
    post = rng.choice(["", "#[allow(non_camel_case_types)]\n", "#[cfg_attr(test, derive(Debug))]\n", "/// trailing doc\n"])
    vis = rng.choice(["", "pub ", "pub(crate) ", "pub(super) "])
    name = rng.choice(["MyQuery", "my_query", "Q", "normalization"])
    text = "%s#[graphql(%s)]\n%s%sstruct %s;" % (pre, body, post, vis, name)
    exp["ident"] = name
    return text, exp, styles


def expected_full(exp):
    """reference semantics of every extraction function"""
    out = {}
    for k in KEYS:
        if k in ("skip_serializing_none", "extern_enums"):
            continue
        out["attr:" + k] = ("ok", exp["attr:" + k]) if ("attr:" + k) in exp else ("err",)
    out["list:extern_enums"] = ("ok", exp["list:extern_enums"]) if "list:extern_enums" in exp else ("err",)
    d = exp.get("attr:deprecated")
    out["deprecation"] = ("ok", {"allow": "Allow", "warn": "Warn", "deny": "Deny"}[d.lower().strip()]) if d is not None and d.lower().strip() in ("allow", "warn", "deny") else ("err",)
    n = exp.get("attr:normalization")
    out["normalization"] = ("ok", {"none": "None", "rust": "Rust"}[n.lower().strip()]) if n is not None and n.lower().strip() in ("none", "rust") else ("err",)
    out["other_variant"] = exp.get("attr:fragments_other_variant") == "true"
    out["skip_none"] = bool(exp.get("skip_none"))
    return out


def part_a(run):
    rng = run.rng
    texts = []
    subsets = []
    for r in range(len(KEYS) + 1):
        subsets += list(itertools.combinations(KEYS, r))
    reps = run.size(1, 20)
    for rep in range(reps):
        for sub in subsets:
            texts.append(build_text(rng, list(sub)))
    for style in ("raw", "hash-raw", "escaped"):
        for _ in range(run.size(120, 1500)):
            sub = rng.sample(KEYS, rng.randint(1, 6))
            texts.append(build_text(rng, sub, style_bias=style))
    lines = [{"id": "t%d" % i, "text": t[0]} for i, t in enumerate(texts)]
    p = subprocess.run([build.bin_path("attrdrv")], input="".join(json.dumps(l) + "\n" for l in lines), capture_output=True, text=True, timeout=900)
    obs = {}
    for line in p.stdout.splitlines():
        d = json.loads(line)
        obs[d["id"]] = d
    for l, (text, exp, styles) in zip(lines, texts):
        ob = obs.get(l["id"])
        run.evaluated()
        run.count("attribute-texts")
        for st in styles:
            run.count("style:" + st)
        case = {"id": l["id"], "corpus": "clean", "attribute_text": text}
        if ob is None or "parse_error" in ob or ob.get("panic"):
            run.violation(case, "attribute text not handled: %s" % (json.dumps(ob)[:200]))
            continue
        full = expected_full(exp)
        bad = None
        for k, want in full.items():
            run.count("extractions-compared")
            got = ob.get(k)
            if isinstance(want, tuple):
                if want[0] == "ok":
                    if not isinstance(got, dict) or got.get("ok") != want[1]:
                        bad = "%s: extracted %s, written %s" % (k, json.dumps(got)[:100], json.dumps(want[1])[:100])
                else:
                    if not isinstance(got, dict) or "err" not in got:
                        bad = "%s: extracted %s although the key is absent / invalid" % (k, json.dumps(got)[:100])
            elif got != want:
                bad = "%s: %s, expected %s" % (k, got, want)
            if bad:
                break
        if bad is None and ob.get("ident") != exp["ident"]:
            bad = "ident %s" % ob.get("ident")
        if bad:
            run.violation(case, bad, {"observed": ob})
        else:
            run.held()
            if len(exp) >= 4 or styles - {"plain"}:
                run.nontrivial(text)
            if run.held_n % 400 == 1:
                run.sample({"attribute_text": text, "extracted": {k: ob.get(k) for k in sorted(full) if isinstance(ob.get(k), dict) and "ok" in ob.get(k)}}, limit=5)


def squash(s):
    return re.sub(r"\s+", "", s or "")


def part_b(run):
    """real derives"""
    rng = run.rng
    n = run.size(16, 160)
    cases = []
    schema = None
    for i in range(n):
        if i % 2 == 0:
            schema = gen_schema(rng, deprecations=0.2, n_enum=rng.randint(1, 2))
        doc, feats = gen_document(schema, rng, n_ops=1)
        cid = "c%d" % i
        o = {"mode": "derive"}
        if rng.random() < 0.6:
            o["response_derives"] = rng.choice(["Debug", "Debug,Clone", "Debug, PartialEq"])
        if rng.random() < 0.5:
            o["variables_derives"] = rng.choice(["Debug", "Clone,PartialEq"])
        if rng.random() < 0.5:
            o["normalization"] = rng.choice(["rust", "none", "RUST"])
        if rng.random() < 0.6:
            o["deprecation"] = rng.choice(["allow", "warn", "deny", "DENY", "bogus"])
        if rng.random() < 0.4:
            o["other_variant"] = True
        if rng.random() < 0.4:
            o["skip_none"] = True
        if schema.of_kind("scalar") and rng.random() < 0.4:
            o["custom_scalars_module"] = "crate::%s::scalars" % cid
        if rng.random() < 0.3:
            o["extern_enums"] = sorted(rng.sample(schema.of_kind("enum"), 1))
        # every form of visibility the struct can carry inside its module `crate::<cid>`
        o["visibility"] = rng.choice(["pub", "pub(crate)", "inherited", "pub(super)", "pub(self)", "pub(in crate::%s)" % cid, "pub(in crate)", "pub(in super)"])
        c = C.make_case(cid, schema, doc, rng, options=o, features=feats)
        cases.append(c)
    fac = Factory("C18-%d" % run.seed)
    log = os.path.join(fac.work, "derive.log")
    fac.extra_env = {"GRAPHQL_CLIENT_VERIF_LOG": log}
    srcs = {}
    written = {}
    for c in cases:
        gendrv_request(c, fac.work)
    ind = os.path.join(fac.work, "in")
    # a directory reached through a symbolic link, then left again with `..`: the operating system follows the link first, so
    # `../linkdir/../in2/x` is <work>/viaroot/deep/in2/x (the real schema), not <work>/in2/x (a decoy) as a textual clean-up of
    # the path would have it
    os.makedirs(os.path.join(fac.work, "viaroot", "deep", "real"))
    os.makedirs(os.path.join(fac.work, "viaroot", "deep", "in2"))
    os.makedirs(os.path.join(fac.work, "in2"))
    os.symlink(os.path.join(fac.work, "viaroot", "deep", "real"), os.path.join(fac.work, "linkdir"))

    def attribute_for(c, o, sp, cid, abs_schema=False, via_link=False, qrel=None):
        keys = []
        st = lambda v: lit(v, rng.choice(["plain", "plain", "raw", "hash-raw", "escaped"]))[0]
        # an absolute schema path (a schema shared outside the crate) resolves to itself against any directory
        keys.append("schema_path = %s" % st(os.path.join(ind, sp) if abs_schema else ("../linkdir/../in2/" + sp if via_link else "../in/" + sp)))
        keys.append("query_path = %s" % st(qrel or "../in/" + cid + ".query.graphql"))
        for k, a in (("response_derives", "response_derives"), ("variables_derives", "variables_derives"), ("normalization", "normalization"),
                     ("deprecation", "deprecated"), ("custom_scalars_module", "custom_scalars_module")):
            if o.get(k) is not None:
                keys.append("%s = %s" % (a, st(o[k])))
        if o.get("other_variant"):
            keys.append('fragments_other_variant = "true"')
        if o.get("skip_none"):
            keys.append("skip_serializing_none")
        if o.get("extern_enums"):
            keys.append("extern_enums(%s)" % ", ".join(st(e) for e in o["extern_enums"]))
        rng.shuffle(keys)
        vis = "" if o["visibility"] == "inherited" else o["visibility"] + " "
        run.count("vis:" + re.sub(r"c\d+", "<module>", o["visibility"]))
        opname = c["doc_model"]["operations"][0]["name"]
        from .. import names as _names
        sname = _names.camel(opname) if (o.get("normalization") or "").lower().strip() == "rust" else opname
        attr = "#[derive(graphql_client::GraphQLQuery)]\n#[graphql(%s%s)]\n#[allow(dead_code)]\n%sstruct %s;\n" % (rng.choice([", ", ",\n  "]).join(keys), rng.choice(["", ","]), vis, sname)
        return attr, sname

    twins = {}
    for ci, c in enumerate(cases):
        cid = c["id"]
        o = c["options"]
        sp = [f for f in os.listdir(ind) if f.startswith(cid + ".schema.")][0]
        abs_schema = (ci % 4 == 3)
        via_link = (ci % 4 == 2)
        if abs_schema:
            run.count("absolute-schema-paths")
        if via_link:
            run.count("schema-paths-through-a-symlinked-directory")
            shutil.copy(os.path.join(ind, sp), os.path.join(fac.work, "viaroot", "deep", "in2", sp))
            with open(os.path.join(fac.work, "in2", sp), "w") as fh:
                fh.write("type Query { decoy_of_a_textually_normalised_path: Int }\n" if not sp.endswith(".json") else "{}")
        qrel = None
        if ci % 4 == 0:
            # a backslash is an ordinary file-name character here: `../in/bs\c0.query.graphql` is ONE file in `in`, not the
            # file c0.query.graphql in the directory `in/bs` (which holds a decoy) - the value reaches the library as written
            qrel = "../in/bs\\" + cid + ".query.graphql"
            shutil.copy(os.path.join(ind, cid + ".query.graphql"), os.path.join(ind, "bs\\" + cid + ".query.graphql"))
            os.makedirs(os.path.join(ind, "bs"), exist_ok=True)
            with open(os.path.join(ind, "bs", cid + ".query.graphql"), "w") as fh:
                fh.write("query DecoyBehindARewrittenSeparator { __typename }\n")
            run.count("query-paths-with-a-backslash-in-the-file-name")
        attr, sname = attribute_for(c, o, sp, cid, abs_schema=abs_schema, via_link=via_link, qrel=qrel)
        # the consumer's extern enum / scalar support follows the normalisation actually in force
        eff_norm = "rust" if (o.get("normalization") or "").lower().strip() == "rust" else "none"
        sup_opts = dict(o, normalization=eff_norm)
        c["support"] = C.support_for(Schema(c["schema_model"]), sup_opts)
        if ci % 4 == 1:
            # twins: the same struct name over the same query and schema files once more in a sibling module, with other
            # options - each derive must follow its own attribute (what one derive produced must not leak into the next)
            o2 = dict(o)
            o2["skip_none"] = not o.get("skip_none")
            o2["other_variant"] = not o.get("other_variant")
            o2["response_derives"] = "Debug,Clone,PartialEq" if o.get("response_derives") != "Debug,Clone,PartialEq" else "Debug"
            o2["visibility"] = "pub" if o["visibility"] != "pub" else "pub(crate)"
            if o["visibility"] == "pub(super)":
                pass
            if eff_norm == "none":
                o2.pop("normalization", None)       # same struct name needs the same effective normalization
            attr2, sname2 = attribute_for(c, o2, sp, cid)
            twins[cid] = o2
            srcs[cid] = support_code(c) + "pub mod twin_a {\n#[allow(unused_imports)] use super::*;\n%s}\npub mod twin_b {\n#[allow(unused_imports)] use super::*;\n%s}\n" % (attr, attr2)
            run.count("twin-derives")
            written[cid] = {"attr": attr + "// twin:\n" + attr2, "schema_rel": "../in/" + sp, "query_rel": "../in/" + cid + ".query.graphql", "struct": sname}
        else:
            srcs[cid] = support_code(c) + attr
            written[cid] = {"attr": attr, "schema_rel": os.path.join(ind, sp) if abs_schema else ("../linkdir/../in2/" + sp if via_link else "../in/" + sp),
                            "query_rel": qrel or "../in/" + cid + ".query.graphql", "struct": sname}
    # rustc runs somewhere else than in the manifest directory (as under cargo in a workspace), and from there the same
    # relative paths lead to other files: whoever resolves a path against the working directory reads these
    elsewhere = os.path.join(fac.work, "elsewhere", "cwd")
    os.makedirs(elsewhere)
    os.makedirs(os.path.join(fac.work, "elsewhere", "in"))
    for fn in os.listdir(ind):
        with open(os.path.join(fac.work, "elsewhere", "in", fn), "w") as fh:
            fh.write("type Query { decoy_from_the_working_directory: Int }\n" if ".schema." in fn else "query DecoyFromTheWorkingDirectory { decoy_from_the_working_directory }\n")
    fac.rustc_cwd = elsewhere
    fake_gen = {c["id"]: {"outcome": "ok"} for c in cases}
    verdict = fac.compile(cases, fake_gen, check_only=True, files=srcs)
    entries, all_entries, returned = {}, {}, {}
    if os.path.exists(log):
        for line in open(log):
            try:
                e = json.loads(line)
            except ValueError:
                continue
            qp = e.get("query_path") or ""
            m = re.search(r"[/\\](c\d+)\.query\.graphql$", qp)
            if m and e.get("stage") == "returned":
                returned.setdefault(m.group(1), []).append(e)       # what the macro really handed back to rustc
            elif m:
                all_entries.setdefault(m.group(1), []).append(e)
                entries.setdefault(m.group(1), e)
    lib_reqs = []
    for c in cases:
        cid = c["id"]
        o = c["options"]
        e = entries.get(cid)
        if not e:
            continue
        eff = {"mode": "derive", "struct_name": written[cid]["struct"], "serde_path": "graphql_client::_private::serde",
               "visibility": o["visibility"], "query_file": e["query_path"]}
        for k in ("response_derives", "variables_derives", "custom_scalars_module", "extern_enums"):
            if o.get(k) is not None:
                eff[k] = o[k]
        nz = (o.get("normalization") or "").lower().strip()
        if nz in ("rust", "none"):
            eff["normalization"] = nz
        dp = (o.get("deprecation") or "").lower().strip()
        if dp in ("allow", "warn", "deny"):
            eff["deprecation"] = dp
        eff["other_variant"] = bool(o.get("other_variant"))
        eff["skip_none"] = bool(o.get("skip_none"))
        lib_reqs.append({"id": cid, "schema_path": e["schema_path"], "query_path": e["query_path"], "options": eff, "want": ["tokens"]})
        if cid in twins:
            o2 = twins[cid]
            eff2 = dict(eff, visibility=o2["visibility"], other_variant=bool(o2.get("other_variant")), skip_none=bool(o2.get("skip_none")), response_derives=o2["response_derives"])
            lib_reqs.append({"id": cid + ".twin", "schema_path": e["schema_path"], "query_path": e["query_path"], "options": eff2, "want": ["tokens"]})
    lib = {r["id"]: r for r in run_gendrv(lib_reqs)} if lib_reqs else {}
    for c in cases:
        cid = c["id"]
        o = c["options"]
        run.evaluated()
        run.count("real-derives")
        case = dict(c, attribute=written[cid]["attr"])
        v = verdict.get(cid)
        e = entries.get(cid)
        if v == "inconclusive":
            run.inconclusive_case(cid, "derive crate failed without attribution: %s" % (fac.unattributed[:1],))
            continue
        if e is None:
            run.violation(case, "no derive event logged (rustc: %s)" % (v,))
            continue
        eo = e.get("options") or {}
        shard_dir = os.path.dirname(os.path.dirname(e["query_path"].replace("/../in/", "/X/in/"))) if False else None
        problems = []
        manifest_dir = os.path.join(fac.work, "shard%d" % fac.shard_of[cid]) if cid in getattr(fac, "shard_of", {}) else e["query_path"].split("/../in/")[0]
        if e["query_path"] != manifest_dir + "/" + written[cid]["query_rel"]:
            problems.append("query path %s != CARGO_MANIFEST_DIR/%s" % (e["query_path"], written[cid]["query_rel"]))
        if os.path.normpath(e["schema_path"]) != os.path.normpath(os.path.join(manifest_dir, written[cid]["schema_rel"])):
            problems.append("schema path %s != CARGO_MANIFEST_DIR/%s" % (e["schema_path"], written[cid]["schema_rel"]))
        nz = (o.get("normalization") or "").lower().strip()
        dp = (o.get("deprecation") or "").lower().strip()
        want = {
            "mode": "Derive",
            "operation_name": written[cid]["struct"], "struct_ident": written[cid]["struct"],
            "variables_derives": o.get("variables_derives"), "response_derives": o.get("response_derives"),
            "deprecation_strategy": {"allow": "Allow", "deny": "Deny"}.get(dp, "Warn"),
            "normalization": "Rust" if nz == "rust" else "None",
            "custom_scalars_module": o.get("custom_scalars_module"),
            "extern_enums": o.get("extern_enums") or [],
            "fragments_other_variant": bool(o.get("other_variant")), "skip_serializing_none": bool(o.get("skip_none")),
            "query_file": e["query_path"],
            "module_visibility": "" if o["visibility"] == "inherited" else o["visibility"],
            "serde_path": "graphql_client::_private::serde",
        }
        run.count("real-derive-options-compared")
        for k, w in want.items():
            g = eo.get(k)
            if k in ("custom_scalars_module", "serde_path", "module_visibility") and g is not None:
                g = squash(g)
                w = squash(w) if w is not None else w
            if g != w:
                problems.append("option %s: macro built %r, attribute says %r" % (k, eo.get(k), want[k]))
        if e.get("outcome") == "tokens":
            l = lib.get(cid)
            run.count("real-derive-token-comparisons")
            if not l or l["outcome"] != "ok":
                problems.append("library route failed where the derive succeeded: %s" % ((l or {}).get("message") or "")[:150])
            elif returned.get(cid) and squash(l["tokens"]) != squash(returned[cid][0]["text"]):
                a, b = squash(l["tokens"]), squash(returned[cid][0]["text"])
                i = next((i for i, (x, y) in enumerate(zip(a, b)) if x != y), min(len(a), len(b)))
                problems.append("the token stream the derive RETURNED differs from the library's for the same options near ...%s | %s" % (a[max(0, i - 50):i + 50], b[max(0, i - 50):i + 50]))
            elif squash(l["tokens"]) != squash(e["text"]):
                a, b = squash(l["tokens"]), squash(e["text"])
                i = next((i for i, (x, y) in enumerate(zip(a, b)) if x != y), min(len(a), len(b)))
                problems.append("derive tokens differ from the library's for the same options near ...%s | %s" % (a[max(0, i - 50):i + 50], b[max(0, i - 50):i + 50]))
            if v != "accepted":
                problems.append("derive output rejected by rustc: %s %s" % (v.get("code"), v.get("message")))
            if v == "accepted" and not returned.get(cid):
                problems.append("no returned-tokens event logged for an accepted derive")
            if cid in twins and v == "accepted":
                run.count("twin-derives-compared")
                l2 = lib.get(cid + ".twin")
                rets = returned.get(cid) or []
                if len(rets) != 2 or len(all_entries.get(cid, [])) != 2:
                    problems.append("twin derives: %d invocation and %d returned events logged, expected 2 and 2" % (len(all_entries.get(cid, [])), len(rets)))
                elif not l2 or l2["outcome"] != "ok":
                    problems.append("library route failed for the twin's options: %s" % ((l2 or {}).get("message") or "")[:150])
                elif squash(l2["tokens"]) != squash(rets[1]["text"]):
                    a, b = squash(l2["tokens"]), squash(rets[1]["text"])
                    i = next((i for i, (x, y) in enumerate(zip(a, b)) if x != y), min(len(a), len(b)))
                    problems.append("second derive of the same struct name over the same files: returned tokens differ from the library's for ITS options near ...%s | %s"
                                    % (a[max(0, i - 50):i + 50], b[max(0, i - 50):i + 50]))
        else:
            problems.append("derive failed: %s" % (e.get("text") or e.get("error") or "")[:200])
        if problems:
            run.violation(case, problems[0], {"all": problems[:8], "logged_options": eo})
        else:
            run.held()
            run.nontrivial(written[cid]["attr"])
            run.sample({"attribute": written[cid]["attr"], "options_the_macro_built": eo}, limit=7)
    fac.cleanup()


def main(run):
    run.rule = RULE
    run.assumptions = ["one #[graphql(...)] attribute per struct (the statement does not speak about several)",
                       "token streams are compared with all whitespace removed (rustc's and proc-macro2's printers differ in spacing only)"]
    part_a(run)
    part_b(run)
    return run.finish(floor=FLOOR if run.tier == "quick" else {k: v * 8 for k, v in FLOOR.items()})


def replay(run, rec):
    c = rec["case"]
    if "attribute_text" in c:
        p = subprocess.run([build.bin_path("attrdrv")], input=json.dumps({"id": "r", "text": c["attribute_text"]}) + "\n", capture_output=True, text=True)
        print(p.stdout[:2000])
    run.evaluated()
    run.held()
    return run.finish()
