"""C13 - one exact rule maps GraphQL type modifiers to Option / Vec nesting.
Monitor: field types in the emitted token stream (parsed with syn by gendrv --inspect);
oracle: an independent recursive rule. The space (62 expressions x kinds x positions x schema
formats) is finite and enumerated completely on every run."""
import itertools
import os
import re

from .. import build
from ..factory import run_gendrv
from ..model import Schema, T, L, NN, render_type, render_sdl, render_json, render_document

LEVEL = "exploration"

RULE = ("all 62 type expressions of list depth 0..4 (every placement of `!`) x named type kind {Int, Float, String, Boolean, ID, "
        "custom scalar, enum, object, interface, union | input object} x position {response field, variable, input-object "
        "field (with schema-level default values), variable of a second operation that re-declares every name with another expression, response field selected under @include / @skip, member of a recursive input type (inside the one Box the cycle needs), every second object field deprecated; the SDL and JSON renderings also under `deprecated = allow` and under skip_serializing_none + normalization rust, @oneOf member (nullable expressions only), object field whose interface declares "
        "it without any `!` (selected on the object, on the interface, and on the object inside a variant)} x schema format {SDL, SDL that "
        "declares the built-in scalars, introspection JSON bare and data-wrapped with all built-in and meta types}; every emitted field / "
        "variant type is compared with rule(expr): `T!` -> inner, `[T]` -> Vec<..>, nullable -> Option<..>; built-in scalar "
        "aliases read from the emitted `type X = Y;` items. Every field is distinct and non-trivial when list depth >= 1 or it is non-null")

OUT_KINDS = {"int": "Int", "float": "Float", "string": "String", "boolean": "Boolean", "id": "ID", "custom": "Date", "enum": "Color",
             "object": "Obj", "interface": "Iface", "union": "Uni"}
IN_KINDS = {"int": "Int", "float": "Float", "string": "String", "boolean": "Boolean", "id": "ID", "custom": "Date", "enum": "Color", "input": "Small"}
ALIASES = {"Boolean": "bool", "Float": "f64", "Int": "i64", "ID": "String"}


def all_exprs(max_depth=4):
    """every expression as a code string over {n (non-null), l (list)} from outer to inner, ending at the named type"""
    out = []
    for d in range(max_depth + 1):
        for bits in itertools.product([0, 1], repeat=d + 1):
            code = ""
            for i in range(d):
                code += ("n" if bits[i] else "") + "l"
            code += "n" if bits[d] else ""
            out.append(code)
    return out


def build_type(code, name):
    def rec(i):
        if i == len(code):
            return T(name)
        if code[i] == "n":
            return NN(rec(i + 1))
        return L(rec(i + 1))
    return rec(0)


def rule(t, nullable=True):
    """the reference rule (independent of decorate_type's state machine)"""
    if t[0] == "nn":
        return rule(t[1], False)
    core = ("Vec<%s>" % rule(t[1])) if t[0] == "list" else "@"
    return ("Option<%s>" % core) if nullable else core


def strip_base(ty):
    """'Option<Vec<Foo>>' -> ('Option<Vec<@>>', 'Foo')"""
    m = re.match(r"^((?:Option<|Vec<|Box<)*)([A-Za-z_][A-Za-z0-9_:]*)(>*)$", ty)
    if not m:
        return ty, None
    return m.group(1) + "@" + m.group(3), m.group(2)


def build_schema():
    s = Schema()
    s.add("Date", {"kind": "scalar"})
    s.add("Color", {"kind": "enum", "values": ["RED", "GREEN"]})
    s.add("Iface", {"kind": "interface", "fields": [{"name": "x", "type": T("Int"), "args": [], "deprecated": None}]})
    s.add("Obj", {"kind": "object", "implements": ["Iface"], "fields": [{"name": "x", "type": T("Int"), "args": [], "deprecated": None}]})
    s.add("Uni", {"kind": "union", "members": ["Obj"]})
    s.add("Small", {"kind": "input", "one_of": False, "fields": [["a", T("Int")]]})
    exprs = all_exprs()
    hf = []
    for k, n in OUT_KINDS.items():
        for c in exprs:
            hf.append({"name": "f_%s_%s" % (k, c or "p"), "type": build_type(c, n), "args": [], "deprecated": None})
    # an interface that declares the same fields with every `!` removed: the implementing object legally narrows them
    # (`[T!]!` is a subtype of `[T]`), and each side must keep its own modifiers
    def strip_all(t):
        if t[0] == "nn":
            return strip_all(t[1])
        if t[0] == "list":
            return L(strip_all(t[1]))
        return t
    s.add("HolderI", {"kind": "interface", "fields": [dict(f, type=strip_all(f["type"])) for f in hf]})
    # every second field of the object is deprecated (with and without a reason): deprecation is about the field, not its type
    hf = [dict(f, deprecated=({"reason": None if i % 4 == 1 else "use something else", "block": False} if i % 2 == 1 else None)) for i, f in enumerate(hf)]
    s.add("Holder", {"kind": "object", "implements": ["HolderI"], "fields": hf})
    # a recursive input type with a member of its own type under every type expression (every member sits on a cycle)
    s.add("Tree", {"kind": "input", "one_of": False, "fields": [["t_%s" % (c or "p"), build_type(c, "Tree")] for c in exprs if not c.startswith("n")] + [["leaf", T("Int")]]})
    big, one = [], []
    for k, n in IN_KINDS.items():
        for c in exprs:
            big.append(["i_%s_%s" % (k, c or "p"), build_type(c, n)])
            if not c.startswith("n") or c == "":
                if not c.startswith("n"):
                    one.append(["o_%s_%s" % (k, c or "p"), build_type(c, n)])
    # default values on input fields (schema-level; they must not change the generated type in either front-end)
    defaults = {}
    for fname, t in big:
        kind = fname.split("_")[1]
        lit = {"int": "1", "string": '"s"', "boolean": "true", "float": "1.5", "enum": "RED", "id": '"x"'}.get(kind)
        if lit is not None:
            d = 0
            tt = t
            while tt[0] != "named":
                if tt[0] == "list":
                    d += 1
                tt = tt[1]
            defaults[fname] = "[" * d + lit + "]" * d
    s.add("Big", {"kind": "input", "one_of": False, "fields": big, "defaults": defaults})
    s.add("One", {"kind": "input", "one_of": True, "fields": one})
    s.add("Query", {"kind": "object", "implements": [], "fields": [{"name": "holder", "type": T("Holder"), "args": [], "deprecated": None},
                                                                   {"name": "holderI", "type": T("HolderI"), "args": [], "deprecated": None}]})
    return s, exprs


def build_doc(s, exprs):
    sel = []
    for f in s.fields("Holder"):
        k = f["name"].split("_")[1]
        sub = None
        if k == "object":
            sub = [["field", None, "x", None, None]]
        elif k in ("interface", "union"):
            sub = [["typename"]]
        sel.append(["field", None, f["name"], None, sub])
    vs = []
    for k, n in IN_KINDS.items():
        for c in exprs:
            vs.append({"name": "v_%s_%s" % (k, c or "p"), "type": build_type(c, n), "default": None})
    vs.append({"name": "big", "type": T("Big"), "default": None})
    vs.append({"name": "tree", "type": T("Tree"), "default": None})
    vs.append({"name": "one", "type": T("One"), "default": None})
    # the interface's own (all-nullable) versions, under aliases g_<kind>_<code>, plus the object's again inside a variant (h_..)
    isel = [["typename"]]
    for it in sel:
        isel.append(["field", "g" + it[2][1:], it[2], None, it[4]])
    isel.append(["inline", "Holder", [["field", "h" + it[2][1:], it[2], None, it[4]] for it in sel]])
    # the same fields once more under the executable directives @include / @skip (aliases j_<kind>_<code>): a directive decides
    # whether the server sends the field, it is not part of the type expression - the rule applies unchanged
    vs.append({"name": "cond", "type": NN(T("Boolean")), "default": None})
    dsel = [["field", "j" + it[2][1:], it[2], " @include(if: $cond)" if i % 2 == 0 else " @skip(if: $cond)", it[4]] for i, it in enumerate(sel)]
    op = {"kind": "query", "name": "Q", "vars": vs, "sel": [["field", None, "holder", None, sel], ["field", None, "holderI", None, isel], ["field", "directed", "holder", None, dsel]]}
    # a second operation of the same document declares the SAME variable names with other type expressions (the expression 7
    # places further in the enumeration): each operation's Variables follow its own declarations
    vs2 = []
    for k, n in IN_KINDS.items():
        for ci, c in enumerate(exprs):
            vs2.append({"name": "v_%s_%s" % (k, c or "p"), "type": build_type(exprs[(ci + SHIFT) % len(exprs)], n), "default": None})
    op2 = {"kind": "query", "name": "Second", "vars": vs2, "sel": [["field", None, "holder", None, [sel[0]]]]}
    return {"operations": [op, op2], "fragments": []}


SHIFT = 7


def main(run):
    run.rule = RULE
    run.exhaustive = True
    run.assumptions = ["emitted types are read from the token stream with syn (gendrv --inspect); whether they compile is C02 / C16's business",
                       "the named part of a composite field's type is only required to be a type the module defines (its name is path-derived)"]
    s, exprs = build_schema()
    doc = build_doc(s, exprs)
    work = os.path.join(build.BUILD, "work", "C13-%d" % run.seed)
    os.makedirs(work, exist_ok=True)
    # the same schema with its root called `RootQ` in a schema block, next to ordinary object types that merely carry the
    # conventional root names and have same-named fields of other types (SDL only: JSON names its roots anyway)
    import copy as _copy
    s_roots = Schema(_copy.deepcopy(s.d))
    qname = s_roots.roots["query"]
    qdef = s_roots.types.pop(qname)
    s_roots.order[s_roots.order.index(qname)] = "RootQ"
    s_roots.types["RootQ"] = qdef
    s_roots.roots["query"] = "RootQ"
    s_roots.d["schema_block"] = True
    s_roots.add("Query", {"kind": "object", "implements": [], "fields": [{"name": "holder", "type": L(T("Int")), "args": [], "deprecated": None}, {"name": "holderI", "type": NN(T("String")), "args": [], "deprecated": None}]})
    s_roots.add("Mutation", {"kind": "object", "implements": [], "fields": [{"name": "holder", "type": T("Int"), "args": [], "deprecated": None}]})
    renderings = {"sdl": ("graphql", render_sdl(s)), "sdl-renamed-roots": ("graphql", render_sdl(s_roots)), "sdl-builtins-declared": ("graphql", render_sdl(s, declare_builtins=True)),
                  # every object type split: a part of its fields arrives in `extend type` blocks (at random places of the file)
                  "sdl-extended": ("graphql", render_sdl(s, rng=run.sub_rng("extend"), extend="all")), "json": ("json", render_json(s)), "json-data": ("json", render_json(s, wrapped=True, builtins="all"))}
    doc_text = render_document(doc)
    # one query FILE for every rendering and option set, all in one driver process: whatever is remembered about the file must not
    # carry one schema's ids over to the next
    qpath = os.path.join(work, "all_positions.graphql")
    open(qpath, "w").write(doc_text)
    reqs = []
    for name, (ext, text) in renderings.items():
        p = os.path.join(work, "schema_%s.%s" % (name.replace("-", "_"), ext))
        open(p, "w").write(text)
        reqs.append({"id": name, "schema_path": p, "query_path": qpath, "options": {"mode": "cli"}, "want": ["inspect"]})
        if name in ("sdl", "json"):
            # Rust-side options that have nothing to do with type expressions: the rule is the same under each of them
            reqs.append({"id": name + "+allow", "schema_path": p, "query_path": qpath, "options": {"mode": "cli", "deprecation": "allow"}, "want": ["inspect"]})
            reqs.append({"id": name + "+skip-none", "schema_path": p, "query_path": qpath, "options": {"mode": "cli", "skip_none": True, "normalization": "rust"}, "want": ["inspect"]})
    resps = run_gendrv(reqs)
    by_code = {(c or "p"): build_type(c, "@") for c in exprs}
    for req, resp in zip(reqs, resps):
        fmt = req["id"]
        if resp["outcome"] != "ok":
            run.violation({"id": fmt, "corpus": "clean", "schema_format": fmt, "doc_text": doc_text[:2000]},
                          "generation-%s: %s" % (resp["outcome"], (resp.get("message") or "")[:200]))
            continue
        items = resp["inspect"]["items"]
        defined = {it["name"] for it in items if it["kind"] in ("struct", "enum", "alias")}
        aliases = {it["name"]: it["target"] for it in items if it["kind"] == "alias"}
        for a, tgt in ALIASES.items():
            run.evaluated()
            if aliases.get(a) != tgt:
                run.violation({"id": "%s-alias-%s" % (fmt, a), "corpus": "clean"}, "alias %s = %s, expected %s" % (a, aliases.get(a), tgt))
            else:
                run.held()
        seen = {"f": 0, "v": 0, "i": 0, "o": 0, "g": 0, "h": 0, "w": 0, "j": 0}

        def check(pos, key, ty, one_of=False, second=False):
            m = re.match(r"^([fvioghj])_([a-z]+)_([nlp]+)$", key)
            if not m:
                return
            posc, kind, code = m.groups()
            if second:
                # the second operation re-declares the name with the expression SHIFT places further on
                if posc != "v":
                    return
                ci = exprs.index("" if code == "p" else code)
                code = exprs[(ci + SHIFT) % len(exprs)] or "p"
                posc = "w"
                pos = "variable re-declared by the second operation"
            t = by_code[code]
            if posc == "g":
                # selected on the interface itself: the interface's declaration (no `!` anywhere)
                t = build_type(code.replace("n", "") if code != "p" else "", "@")
                pos = "interface field (all-nullable declaration)"
            elif posc == "h":
                pos = "object field inside a variant of its interface"
            elif posc == "j":
                pos = "response field selected under @include / @skip"
            exp = rule(NN(t) if (one_of and t[0] != "nn") else t)
            shape, basename = strip_base(ty)
            run.evaluated()
            seen[posc] += 1
            gql = (OUT_KINDS if posc in ("f", "g", "h", "j") else IN_KINDS)[kind]
            if second:
                key = key + " (second operation)"
            ok = shape == exp
            if ok:
                if kind in ("object", "interface", "union"):
                    ok = basename in defined
                else:
                    ok = basename == gql
            if ok:
                run.held()
                if code != "p":
                    run.nontrivial(fmt, key)
                if seen[posc] % 97 == 1:
                    run.sample({"format": fmt, "position": pos, "field": key, "graphql": render_type(build_type("" if code == "p" else code, gql)), "rust": ty}, limit=6)
            else:
                run.violation({"id": "%s-%s" % (fmt, key), "corpus": "clean", "schema_format": fmt, "field": key,
                               "graphql_type": render_type(build_type("" if code == "p" else code, gql))},
                              "type-mismatch at %s %s: emitted %s, rule gives %s of %s" % (pos, key, ty, exp, gql))
        for it in items:
            if it["kind"] == "struct":
                pos = {"Variables": "variable", "Big": "input-object field"}.get(it["name"], "response field")
                second = bool(it.get("path")) and it["path"][0] == "second"
                if second and it["name"] != "Variables":
                    continue        # the second operation's response types repeat a part of the first's
                if it["name"] == "Tree":
                    # members of a recursive input type: the rule, inside the one `Box` the cycle needs
                    for f in it["fields"]:
                        m = re.match(r"^t_([lnp]+)$", f["key"] or "")
                        if not m:
                            continue
                        code = m.group(1)
                        ty = f["type"].replace(" ", "")
                        inner = ty[4:-1] if ty.startswith("Box<") and ty.endswith(">") else ty
                        shape, basename = strip_base(inner)
                        exp = rule(by_code[code])
                        run.evaluated()
                        run.count("%s:t" % fmt)
                        if shape.replace("Box<@>", "@") == exp and basename == "Tree":
                            run.held()
                            run.nontrivial(fmt, "tree", code)
                        else:
                            run.violation({"id": "%s-tree-%s" % (fmt, code), "corpus": "clean", "schema_format": fmt, "field": f["key"], "graphql_type": render_type(build_type("" if code == "p" else code, "Tree"))},
                                          "type-mismatch at recursive input member %s: emitted %s, rule gives %s of Tree (inside one Box)" % (f["key"], f["type"], exp))
                    continue
                for f in it["fields"]:
                    check(pos, f["key"] or "", f["type"], second=second)
            elif it["kind"] == "enum" and it["name"] == "One" and not (it.get("path") and it["path"][0] == "second"):
                for v in it["variants"]:
                    key = v["serde"].get("rename") or v["ident"]
                    check("@oneOf member", key, v["payload"][0] if v["payload"] else "", one_of=True)
        n_out, n_in = len(OUT_KINDS) * len(exprs), len(IN_KINDS) * len(exprs)
        n_one = len(s.types["One"]["fields"])
        for posc, want in (("f", n_out), ("v", n_in), ("i", n_in), ("o", n_one), ("g", n_out), ("h", n_out), ("w", n_in), ("j", n_out)):
            run.count("%s:%s" % (fmt, posc), seen[posc])
            if seen[posc] != want:
                run.violation({"id": "%s-count-%s" % (fmt, posc), "corpus": "clean"}, "expected %d fields at position %s, found %d" % (want, posc, seen[posc]))
    return run.finish(floor={"sdl:f": 620, "json:f": 620, "sdl:v": 496, "sdl:i": 496, "sdl:o": 248})


def replay(run, rec):
    return main(run)
