"""C06 - operations the schema cannot answer are never turned into code.
Monitor: result (or panic) of generate_module_token_stream_from_string on every invalidating
edit; oracle: constant - it must not be Ok."""
import os

from .. import build
from ..factory import run_gendrv_parallel
from ..gen_schema import gen_schema
from ..gen_query import gen_document
from ..gen_edits import edits
from ..model import render_document
from ..cases import render_schema

RULE = ("every clean (schema, document) pair x every applicable single invalidating edit at every position (operations, named "
        "fragments, inline fragments; object / interface / union parents; any depth): E1 unknown field, E2 sub-selection on a "
        "leaf, E3 no sub-selection on a composite field, E4 undefined spread / removed definition, E5 unknown type condition, "
        "E6 type condition that can never apply (empty intersection of possible types, or a non-composite type), E7 `__typename` "
        "dropped from an abstract selection (and not reachable through same-type spreads), E8 second subscription root field, "
        "E9 anonymous operation, E10 operation kind without root type, E11 the query file of one schema given in the same process to a "
        "schema that has none of its fields (a one-field schema, or the document's own schema with every field renamed: same shape, other names) (accepted / refused / accepted again, and the other order). Each edit is validated by the model first. The unedited "
        "document must be accepted (control). Non-trivial = edit at depth >= 2, inside a fragment or inside an inline fragment; "
        "distinct by edited document text")

FLOOR = {"E1": 300, "E2": 100, "E3": 50, "E4": 50, "E5": 30, "E6": 100, "E7": 30, "E8": 2, "E9": 30, "E10": 5, "E11": 8, "controls-accepted": 30}


def main(run):
    run.rule = RULE
    run.assumptions = ["validity of an edit is decided by vlib/gen_edits.py + vlib/model.py (possible-type intersection, spec 5.5.2.3)",
                       "a panic carrying a message counts as an error: what must never happen is generated code"]
    rng = run.rng
    n_pairs = run.size(60, 1500)
    work = os.path.join(build.BUILD, "work", "C06-%d" % run.seed)
    os.makedirs(work, exist_ok=True)
    reqs = []
    meta = {}
    schema = None
    sp = None
    for i in range(n_pairs):
        if i % 3 == 0:
            # every fourth schema is an SDL one with an explicit schema block that leaves out a root, next to an ordinary
            # object type carrying that root's conventional name (E10: an operation kind the schema has no root for)
            decoy = (i % 12 == 3)
            schema = gen_schema(rng, odd_type_names=(i % 9 == 0), decoy_roots=True if decoy else None)
            fmt, text, ext = render_schema(schema, rng, "sdl" if decoy else None)
            if decoy:
                run.count("schemas-with-decoy-root-names")
            sp = os.path.join(work, "s%d.%s" % (i, ext))
            with open(sp, "w") as f:
                f.write(text)
            stext = text
        doc, feats = gen_document(schema, rng)
        rid = "p%d" % i
        reqs.append({"id": rid, "schema_path": sp, "query_text": render_document(doc), "options": {"mode": "cli"}, "want": []})
        meta[rid] = {"rule": "control", "label": "unedited", "schema_path": sp, "schema_text": stext if fmt == "sdl" else None, "schema_format": fmt, "schema_obj": schema}
        for ei, (rule, label, text, m) in enumerate(edits(schema, doc, rng, max_per_rule=run.size(40, 60))):
            eid = "p%d.e%d" % (i, ei)
            # every fifth edit is generated the way the CLI's fallback does it: a selected operation name that matches nothing, so
            # that ALL operations are generated - the invalid one among them must still be refused
            o_edit = {"mode": "cli", "operation_name": "ZzNoSuchOperation"} if ei % 5 == 3 else {"mode": "cli"}
            if ei % 5 == 3:
                run.count("edits-under-a-non-matching-selected-operation")
            reqs.append({"id": eid, "schema_path": sp, "query_text": text, "options": o_edit, "want": []})
            m.update({"rule": rule, "label": label, "schema_path": sp, "schema_text": stext if fmt == "sdl" else None, "schema_format": fmt})
            meta[eid] = m
    resps = run_gendrv_parallel(reqs)
    for req, resp in zip(reqs, resps):
        m = meta[req["id"]]
        run.evaluated()
        case = {"id": req["id"], "corpus": "clean", "rule": m["rule"], "label": m["label"], "doc_text": req["query_text"],
                "schema_text": m.get("schema_text") or open(m["schema_path"]).read(), "schema_ext": os.path.splitext(m["schema_path"])[1][1:], "meta": {k: v for k, v in m.items() if k not in ("schema_text", "schema_obj")}}
        if m["rule"] == "control":
            if resp["outcome"] == "ok":
                run.count("controls-accepted")
                run.held()
            else:
                # a clean document rejected: C02's business, but here it means the edits derived from it prove nothing
                run.inconclusive_case(req["id"], "control rejected: %s" % (resp.get("message") or "")[:200])
            continue
        run.count(m["rule"])
        if m["rule"] == "E3" and m.get("field_kind") == "object":
            case["corpus"] = "hazard:K8"
        if resp["outcome"] in ("err", "panic"):
            run.held()
            run.count("outcome:" + resp["outcome"])
            if not (resp.get("message") or "").strip():
                run.violation(case, "rejected-without-message (%s) for %s" % (resp["outcome"], m["rule"]))
        elif resp["outcome"] == "ok":
            run.violation(case, "accepted %s: %s" % (m["rule"], m["label"]))
        else:
            run.violation(case, "driver-crash on %s: %s" % (m["rule"], (resp.get("message") or "")[:200]))
        if m.get("depth", 0) >= 2 or m.get("in_fragment") or m.get("in_inline"):
            run.nontrivial(req["query_text"], m["schema_path"])
        if resp["outcome"] != "ok" and run.counters.get(m["rule"], 0) % 400 == 1:
            run.sample({"rule": m["rule"], "edit": m["label"], "document": req["query_text"][:500], "outcome": resp["outcome"], "message": (resp.get("message") or "")[:200]}, limit=8)
    # E11: a query FILE that one schema can answer, given in the same process to a schema that cannot (two APIs in one crate,
    # one query directory): accepted, refused, accepted again - and the other order for the next file
    from ..factory import run_gendrv
    zsp = os.path.join(work, "z_other_schema.graphql")
    open(zsp, "w").write("type Query { zz_only_in_this_schema: Int }\n")
    seq = []
    ctrl_ids = [rid for rid in meta if meta[rid]["rule"] == "control"][: run.size(12, 120)]
    req_by_id = {r["id"]: r for r in reqs}
    for n, rid in enumerate(ctrl_ids):
        text = req_by_id[rid]["query_text"]
        if "{" not in text or text.count("__typename") and len(text) < 40:
            continue
        qp = os.path.join(work, "e11_%d.graphql" % n)
        open(qp, "w").write(text)
        own = meta[rid]["schema_path"]
        if n % 3 != 2:
            # the other schema is the document's own with every field renamed: same types, same shape, same positions -
            # only the names the document uses are gone
            import copy
            from ..model import Schema, render_sdl
            z = Schema(copy.deepcopy(meta[rid]["schema_obj"].d))
            for tn in z.order:
                for f in z.types[tn].get("fields", []):
                    if isinstance(f, dict):
                        f["name"] = f["name"] + "Zz"
            zsp_n = os.path.join(work, "e11_%d_renamed.graphql" % n)
            open(zsp_n, "w").write(render_sdl(z))
        else:
            zsp_n = zsp
        order = [own, zsp_n, own] if n % 2 == 0 else [zsp_n, own, zsp_n]
        for k, spath in enumerate(order):
            seq.append(({"id": "e11_%d_%d" % (n, k), "schema_path": spath, "query_path": qp, "options": {"mode": "cli"}, "want": []}, spath != own, text, own))
    for (req, must_fail, text, own), resp in zip(seq, run_gendrv([x[0] for x in seq])):
        run.evaluated()
        case = {"id": req["id"], "corpus": "clean", "rule": "E11", "label": "query file of another schema, same process", "doc_text": text,
                "schema_text": open(req["schema_path"]).read(), "schema_ext": os.path.splitext(req["schema_path"])[1][1:], "own_schema_text": open(own).read()}
        if must_fail:
            run.count("E11")
            if resp["outcome"] == "ok":
                run.violation(case, "accepted E11: a document of another schema, given as the same query file to a schema without any of its fields (calls before it in this process: %s)" % req["id"])
            else:
                run.held()
                run.nontrivial("E11", text)
        elif resp["outcome"] != "ok":
            run.inconclusive_case(req["id"], "E11 control rejected: %s" % (resp.get("message") or "")[:160])
        else:
            run.held()
    # committed witnesses of findings (open: expected to be accepted; fixed: must be rejected now)
    from ..core import load_known
    for k in load_known():
        w = k.get("witness") or {}
        if k["property"] != "C06" or w.get("engine") != "A" or "document" not in w:
            continue
        wp = os.path.join(work, "w_%s.graphql" % k["id"])
        open(wp, "w").write(w["schema"])
        resp = run_gendrv([{"id": k["id"], "schema_path": wp, "query_text": w["document"], "options": {"mode": "cli"}, "want": []}])[0]
        run.evaluated()
        case = {"id": "w_" + k["id"], "corpus": ("witness:" + k["id"]) if k["status"] == "open" else "clean", "rule": w.get("rule"), "label": w.get("label"),
                "doc_text": w["document"], "schema_text": w["schema"], "schema_ext": "graphql"}
        if resp["outcome"] == "ok":
            run.violation(case, "accepted %s: %s" % (w.get("rule", "witness"), w.get("label", k["id"])))
            run.witness_result(k["id"], True)
        else:
            run.held()
            run.witness_result(k["id"], False)
    import shutil
    shutil.rmtree(work, ignore_errors=True)
    return run.finish(floor=FLOOR if run.tier == "quick" else {k: v * 10 for k, v in FLOOR.items()})


def replay(run, rec):
    c = rec["case"]
    work = os.path.join(build.BUILD, "work", "C06-replay")
    os.makedirs(work, exist_ok=True)
    sp = os.path.join(work, "s." + (c.get("schema_ext") or "graphql"))
    open(sp, "w").write(c["schema_text"])
    from ..factory import run_gendrv
    resp = run_gendrv([{"id": "r", "schema_path": sp, "query_text": c["doc_text"], "options": {"mode": "cli"}, "want": []}])[0]
    run.evaluated()
    if resp["outcome"] == "ok":
        run.violation(c, "accepted %s: %s" % (c.get("rule"), c.get("label")))
    else:
        run.held()
        print("rejected:", (resp.get("message") or "")[:300])
    return run.finish()
