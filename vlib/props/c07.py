"""C07 - SDL and introspection JSON of the same schema generate identical code.
Monitor: token streams returned for the same (document, options) against several renderings of
one schema model; oracle: string equality for order-preserving renderings, equality of the
canonical item multiset (syn summary) when the rendering permutes the type order."""
import json
import os
import shutil

from .. import build
from ..factory import run_gendrv_parallel
from ..gen_schema import gen_schema
from ..gen_query import gen_document
from ..model import render_sdl, render_json, render_document, T, NN, L

RULE = ("random schemas (every type kind, qualifier nestings to depth 3, implementors, union members, enum values, input fields, "
        "@oneOf, default / custom root names, deprecations with and without reason) rendered as: SDL; SDL with `extend type` "
        "splits, comments and .graphqls/.gql extension; bare introspection JSON; {\"data\":..}-wrapped JSON with built-in scalars "
        "and `__` meta types interleaved; sparse JSON (optional members absent); JSON and SDL with shuffled type order. For "
        "2-4 documents x 3 option sets each rendering's token stream is compared with plain SDL's: exact string equality when "
        "the per-kind type order is preserved, canonical item multiset otherwise. Non-trivial = comparison whose document uses "
        "an abstract type, an input object or a deprecated field; distinct by (schema, rendering, document, options)")

OPTION_SETS = [{"mode": "cli"},
               {"mode": "cli", "normalization": "rust", "deprecation": "deny", "response_derives": "Debug"},
               {"mode": "cli", "other_variant": True, "skip_none": True, "deprecation": "allow", "variables_derives": "Clone"}]

FLOOR = {"comparisons": 600, "exact-equal": 300, "canonical-equal": 100, "schemas-with-oneof": 5, "schemas-with-deprecation": 20}


def input_op(schema, rng, name):
    vs = []
    for i, n in enumerate(schema.of_kind("input")):
        vs.append({"name": "in%d" % i, "type": rng.choice([T(n), NN(T(n)), L(NN(T(n)))]), "default": None})
    for i, n in enumerate(schema.of_kind("enum")[:2]):
        vs.append({"name": "en%d" % i, "type": T(n), "default": None})
    if not vs:
        return None
    return {"kind": "query", "name": name, "vars": vs, "sel": [["typename"]]}


def canonical(inspect):
    """items as a multiset; the variants of `__typename`-tagged enums as a set (for an interface they follow the
    schema's object order, which a permuted rendering changes and which is not observable on the wire)"""
    out = []
    for it in inspect.get("items", []):
        if it.get("kind") == "enum" and (it.get("serde") or {}).get("tag"):
            it = dict(it, variants=sorted(it["variants"], key=lambda v: v["ident"]))
        out.append(json.dumps(it, sort_keys=True))
    return sorted(out)


def main(run):
    run.rule = RULE
    run.assumptions = ["the renderers of vlib/model.py produce the same schema in every format (they share one model)",
                       "item order inside a module is not observable by users, so it is not judged for permuted renderings (it is counted)"]
    rng = run.rng
    n_schemas = run.size(40, 1200)
    work = os.path.join(build.BUILD, "work", "C07-%d" % run.seed)
    shutil.rmtree(work, ignore_errors=True)
    os.makedirs(work)
    reqs = []
    meta = {}
    for si in range(n_schemas):
        schema = gen_schema(rng, odd_type_names=(si % 3 == 0), deprecations=0.3, n_input=rng.randint(1, 4), narrowing=0.3 if si % 2 else 0.0, own_deprecation=0.3 if si % 4 == 1 else 0.0, underscore_types=(si % 5 == 2))
        if any(t.get("one_of") for t in schema.types.values()):
            run.count("schemas-with-oneof")
        if any(f.get("deprecated") for t in schema.types.values() for f in t.get("fields", []) if isinstance(f, dict)):
            run.count("schemas-with-deprecation")
        shuffled = list(schema.order)
        rng.shuffle(shuffled)
        rend = {
            "sdl": ("graphql", render_sdl(schema), True),
            "sdl-ext": (rng.choice(["graphqls", "gql"]), render_sdl(schema, rng, extend=True, comments=True, multiline=False), True),
            "sdl-builtins": ("graphql", render_sdl(schema, declare_builtins=True), True),
            "sdl-directives": ("graphql", render_sdl(schema, rng, tags=True), True),
            "json": ("json", render_json(schema), True),
            "json-data-meta": ("json", render_json(schema, wrapped=True, builtins="all", rng=rng, indent=1), True),
            "json-sparse": ("json", render_json(schema, sparse=True, builtins="scalars"), True),
            "json-shuffled": ("json", render_json(schema, order=shuffled, wrapped=rng.random() < 0.5), False),
            "sdl-shuffled": ("graphql", render_sdl(schema, order=shuffled), False),
        }
        paths = {}
        for rn, (ext, text, _) in rend.items():
            p = os.path.join(work, "s%d_%s.%s" % (si, rn.replace("-", "_"), ext))
            with open(p, "w") as f:
                f.write(text)
            paths[rn] = p
        docs = []
        for di in range(rng.randint(2, 3)):
            doc, feats = gen_document(schema, rng)
            docs.append((render_document(doc), feats))
        iop = input_op(schema, rng, "VarsOp")
        if iop:
            docs.append((render_document({"operations": [iop], "fragments": []}), ["input-vars"]))
        # an operation kind whose root the schema lacks must be refused by every rendering alike
        for kind in ("mutation", "subscription"):
            if not schema.roots.get(kind):
                docs.append(("%s NoSuchRoot { __typename }\n" % kind, ["missing-root-operation"]))
                run.count("missing-root-documents")
        for di, (dtext, feats) in enumerate(docs):
            for oi, opts in enumerate(OPTION_SETS):
                if run.quick() and oi > 0 and di > 1:
                    continue
                for rn in rend:
                    rid = "s%d.d%d.o%d.%s" % (si, di, oi, rn)
                    reqs.append({"id": rid, "schema_path": paths[rn], "query_text": dtext, "options": opts,
                                 "want": ["tokens"] + (["inspect"] if not rend[rn][2] or rn == "sdl" else [])})
                    meta[rid] = {"schema": si, "doc": di, "opts": oi, "rendering": rn, "exact": rend[rn][2], "feats": feats, "doc_text": dtext,
                                 "schema_sdl": rend["sdl"][1], "path": paths[rn]}
    resps = run_gendrv_parallel(reqs)
    by = {r["id"]: r for r in resps}
    for rid, m in meta.items():
        if m["rendering"] == "sdl":
            continue
        base_id = rid.rsplit(".", 1)[0] + ".sdl"
        a, b = by[base_id], by[rid]
        run.evaluated()
        run.count("comparisons")
        case = {"id": rid, "corpus": "clean", "rendering": m["rendering"], "doc_text": m["doc_text"], "options": OPTION_SETS[m["opts"]],
                "schema_text": m["schema_sdl"], "schema_text_other": open(m["path"]).read()[:20000], "schema_ext": os.path.splitext(m["path"])[1][1:]}
        if a["outcome"] != b["outcome"]:
            run.violation(case, "outcome differs: sdl=%s %s=%s (%s)" % (a["outcome"], m["rendering"], b["outcome"], (b.get("message") or a.get("message") or "")[:200]))
            continue
        if a["outcome"] != "ok":
            run.count("both-rejected")
            continue
        if m["exact"]:
            if a["tokens"] == b["tokens"]:
                run.held()
                run.count("exact-equal")
            else:
                i = next((i for i, (x, y) in enumerate(zip(a["tokens"], b["tokens"])) if x != y), min(len(a["tokens"]), len(b["tokens"])))
                run.violation(case, "tokens differ (%s vs sdl) near: ...%s | %s" % (m["rendering"], a["tokens"][max(0, i - 60):i + 60], b["tokens"][max(0, i - 60):i + 60]))
        else:
            ca, cb = canonical(a["inspect"]), canonical(b["inspect"])
            if ca == cb:
                run.held()
                run.count("canonical-equal")
                if a["tokens"] != b["tokens"]:
                    run.count("order-only-differences")
            else:
                diff = [x for x in ca if x not in cb][:1] + [x for x in cb if x not in ca][:1]
                run.violation(case, "items differ (%s vs sdl): %s" % (m["rendering"], " | ".join(d[:200] for d in diff)))
        fs = set(m["feats"])
        if fs & {"interface", "union", "input-vars"}:
            run.nontrivial(m["schema"], m["rendering"], m["doc"], m["opts"])
        if run.counters.get("comparisons", 0) % 500 == 1:
            run.sample({"rendering": m["rendering"], "document": m["doc_text"][:400], "options": OPTION_SETS[m["opts"]], "tokens_equal": a["tokens"] == b["tokens"], "token_length": len(a["tokens"])}, limit=5)
    shutil.rmtree(work, ignore_errors=True)
    return run.finish(floor=FLOOR if run.tier == "quick" else {k: v * 15 for k, v in FLOOR.items()})


def replay(run, rec):
    c = rec["case"]
    work = os.path.join(build.BUILD, "work", "C07-replay")
    os.makedirs(work, exist_ok=True)
    p1 = os.path.join(work, "a.graphql")
    p2 = os.path.join(work, "b." + c["schema_ext"])
    open(p1, "w").write(c["schema_text"])
    open(p2, "w").write(c["schema_text_other"])
    from ..factory import run_gendrv
    exact = "shuffled" not in c["rendering"]
    a, b = run_gendrv([{"id": "a", "schema_path": p1, "query_text": c["doc_text"], "options": c["options"], "want": ["tokens", "inspect"]},
                       {"id": "b", "schema_path": p2, "query_text": c["doc_text"], "options": c["options"], "want": ["tokens", "inspect"]}])
    run.evaluated()
    same = a["outcome"] == b["outcome"] and (a["outcome"] != "ok" or (a["tokens"] == b["tokens"] if exact else canonical(a["inspect"]) == canonical(b["inspect"])))
    if same:
        run.held()
    else:
        run.violation(c, "replayed difference (%s vs sdl)" % c["rendering"])
    return run.finish()
