"""C01 - every spec-conforming response deserialises losslessly into ResponseData.
Monitor: `resp` trace of the compiled generated types; oracle: shape-guided lossless round trip."""
from .. import cases as C
from ..factory import Factory
from ..gen_schema import gen_schema
from ..gen_query import gen_document
from ..model import Schema
from .. import hazards

RULE = ("random schema (SDL / introspection JSON renderings alternating) x clean-grammar document (DESIGN.md section 4) x "
        "conforming payloads generated from the spec's CollectFields shape with forced coverage (every runtime type at "
        "every abstract position, all-null / none-null, list lengths 0/1/n, scalar boundary values, ID as int and string); "
        "a case is non-trivial when its document has an abstract position, a fragment or a list field; distinct = by "
        "hash of (schema text, document text, options)")

BORDERLINE_RULE = ("; plus spec-valid variants of those documents in which an abstract selection's `__typename` is moved into a named "
                   "fragment on one member type, into an inline fragment on one member type, or dropped: the generator may refuse them "
                   "(counted as vacuous), but whatever it accepts must deserialise every conforming payload")


def borderline_variants(schema, doc, rng):
    """spec-valid documents in which some abstract selection gets `__typename` only for one member type (or not at all)"""
    import copy
    from ..model import base
    from ..gen_edits import positions, _path_of, _get
    spots = []
    for container, i, it, ptype, where, depth, in_inline in positions(schema, doc):
        if it[0] == "field" and it[4]:
            f = schema.field(ptype, it[2])
            if f is not None and schema.kind(base(f["type"])) in ("interface", "union") and any(x[0] == "typename" for x in it[4]):
                members = sorted(schema.possible(base(f["type"])))
                if members:
                    spots.append((container, i, members))
    out = []
    rng.shuffle(spots)
    # an ABSTRACT type condition under another abstract type that shares possible types with it (`search { __typename ... on
    # Node { id } }`, union SearchResult = User | Dog, both Nodes): valid by the spec's "spread is possible" rule
    for container, i, members in spots[:2]:
        item0 = container[i]
        bt = base(schema.field(positions_ptype(schema, doc, container, i), item0[2])["type"])
        for x in schema.order:
            if x == bt or schema.kind(x) != "interface" or not (set(schema.possible(x)) & set(members)):
                continue
            leaves = [f for f in schema.types[x]["fields"] if schema.is_leaf(base(f["type"]))]
            if not leaves:
                continue
            d2 = copy.deepcopy(doc)
            item = _get(d2, _path_of(doc, container, i))[i]
            item[4] = list(item[4]) + [["inline", x, [["field", "zzAbstract", leaves[0]["name"], None, None]]]]
            out.append(("abstract-condition", d2))
            break
    for container, i, members in spots[:2]:
        for how in ("member-fragment", "member-inline", "dropped"):
            d2 = copy.deepcopy(doc)
            item = _get(d2, _path_of(doc, container, i))[i]
            sub = [x for x in item[4] if x[0] != "typename"]
            m = rng.choice(members)
            if how == "member-fragment":
                d2["fragments"].append({"name": "ZzTypenameOf" + m.replace("_", ""), "on": m, "sel": [["typename"]]})
                sub.append(["spread", "ZzTypenameOf" + m.replace("_", "")])
            elif how == "member-inline":
                sub.insert(0, ["inline", m, [["typename"]]])
            elif not sub:
                continue
            item[4] = sub
            out.append((how, d2))
    return out


def positions_ptype(schema, doc, container, i):
    from ..gen_edits import positions
    for c, k, it, ptype, where, depth, in_inline in positions(schema, doc):
        if c is container and k == i:
            return ptype
    raise KeyError


FLOOR = {"abstract-position": 20, "named-fragment": 5, "inline-variant": 5, "id-int": 5, "list-len-0": 5, "null": 20}


def gen_cases(run, n, prefix="c"):
    rng = run.rng
    out = []
    schema = None
    for i in range(n):
        if i % 3 == 0:
            schema = gen_schema(rng, odd_type_names=(i % 6 == 0), narrowing=0.35 if i % 2 else 0.0, unknown_member=(i % 12 == 9))
        doc, feats = gen_document(schema, rng)
        if i % 8 == 5:
            # (schema rendered with every object split into extension blocks, see below) an operation that selects every
            # interface- / union-typed root field with nothing but `__typename` and the common leaves: every possible runtime
            # type then appears in the payloads without the document naming it
            from ..model import base as _base
            extra = []
            root = schema.types[schema.roots["query"]]
            for f in root["fields"]:
                b = _base(f["type"])
                if schema.kind(b) in ("interface", "union") and not any(a[1][0] == "nn" for a in f.get("args", [])):
                    leaves = [g["name"] for g in schema.types[b].get("fields", []) if schema.is_leaf(_base(g["type"]))] if schema.kind(b) == "interface" else []
                    extra.append(["field", None, f["name"], None, [["typename"]] + [["field", None, n, None, None] for n in leaves[:3]]])
            if extra:
                doc["operations"].append({"kind": "query", "name": "ZzAbstractRoots%d" % i, "vars": [], "sel": extra})
                feats = list(feats) + ["interface"]
        opts = {"other_variant": rng.random() < 0.3, "skip_none": rng.random() < 0.2}
        if "Unknown" in schema.types:
            opts["other_variant"] = False     # a member type literally called `Unknown`: the generator must not add a variant of that name itself
            run.count("member-type-named-Unknown")
        if rng.random() < 0.3:
            opts["normalization"] = "rust"
        c = C.make_case("%s%d" % (prefix, i), schema, doc, rng, options=opts, features=feats, fmt="sdl-extended" if i % 8 == 5 else None)
        vecs, stats = C.resp_vectors(c, rng, n_payloads=run.size(10, 16), n_corrupt_bases=0)
        c["vectors"] = vecs
        c["payload_stats"] = stats
        out.append(c)
        if i % 2 == 0 and ({"interface", "union"} & set(feats)):
            for bi, (how, d2) in enumerate(borderline_variants(schema, doc, rng)[:4]):
                b = C.make_case("%s%d_b%d" % (prefix, i, bi), schema, d2, rng, options=opts, fmt=c["schema_format"], features=list(feats) + ["borderline:" + how])
                b["borderline"] = how
                try:
                    b["vectors"], b["payload_stats"] = C.resp_vectors(b, rng, n_payloads=6, n_corrupt_bases=0)
                except RecursionError:
                    continue
                out.append(b)
    return out


def shared_query_file_cases(run, n):
    """pairs of cases that share ONE query file and differ in the schema file: the second schema is the first with a new field in
    front of every object's and interface's fields (all field positions shift) and a new type in front of the others. Both
    are generated in one driver process, like two derives of one crate; each must accept its schema's conforming payloads"""
    import copy
    from ..model import Schema, T, NN
    rng = run.sub_rng("shared-query-file")
    out = []
    for i in range(n):
        schema = gen_schema(rng, narrowing=0.0)
        doc, feats = gen_document(schema, rng)
        s2 = Schema(copy.deepcopy(schema.d))
        for tn in list(s2.order):
            t = s2.types[tn]
            if t["kind"] in ("object", "interface") and tn not in s2.roots.values():
                t["fields"].insert(0, {"name": "zzInsertedFirst", "type": NN(T("Int")) if i % 2 else T("String"), "args": [], "deprecated": None})
        s2.add("AaaInserted", {"kind": "object", "implements": [], "fields": [{"name": "x", "type": T("Int"), "args": [], "deprecated": None}]})
        s2.order.remove("AaaInserted")
        s2.order.insert(0, "AaaInserted")
        opts = {"other_variant": i % 3 == 0}
        a = C.make_case("sq%da" % i, schema, doc, rng, options=opts, fmt="sdl", features=list(feats) + ["shared-query-file"])
        b = C.make_case("sq%db" % i, s2, doc, rng, options=opts, fmt="sdl" if i % 2 else "json", features=list(feats) + ["shared-query-file"])
        b["query_file_from"] = a["id"]
        b["doc_text"] = a["doc_text"]
        for c in (a, b):
            c["vectors"], c["payload_stats"] = C.resp_vectors(c, rng, n_payloads=6, n_corrupt_bases=0)
            out.append(c)
        run.count("shared-query-file-pairs")
    return out


def execute(run, cases, tag="b0"):
    fac = Factory("%s-%s-%d" % (run.prop, tag, run.seed))
    gen, verdict, obs = fac.run(cases)
    for c in cases:
        cid = c["id"]
        g = gen[cid]
        if c["corpus"].startswith("witness:"):
            pass
        if g["outcome"] != "ok":
            # C01 quantifies over operations for which generation succeeds; a clean case that is rejected is C02's business
            run.count("generation-" + g["outcome"])
            if c.get("borderline"):
                run.count("borderline-refused (vacuous)")
            if c["corpus"] != "clean":
                run.witness_result(c["corpus"].split(":")[1], False)
            continue
        v = verdict.get(cid)
        if v == "inconclusive":
            run.inconclusive_case(cid, "shard build failed without attribution")
            continue
        if v != "accepted":
            run.count("rustc-rejected")
            if c.get("delivery") == "derive":
                run.count("derive-delivery-rejected (not this property's business: C02 / C18)")
            if c["corpus"] != "clean":
                r = run.violation(c, "rustc %s: %s" % (v.get("code"), v.get("message")))
                run.witness_result(c["corpus"].split(":")[1], True)
            continue
        if not c.get("vectors"):
            run.count("cases-without-payload")   # every payload attempt hit the depth guard (deep non-null nesting)
            continue
        o = obs.get(cid)
        if o is None or o.get("signal") or (o.get("exit") not in (0,)):
            run.inconclusive_case(cid, "probe exit=%s signal=%s %s" % (o and o.get("exit"), o and o.get("signal"), o and o.get("stderr")))
            continue
        run.feature(c["features"])
        if c.get("borderline"):
            run.count("borderline-accepted")
        for k, n in (c.get("payload_stats") or {}).items():
            run.count(k, n)
        failed = False
        for vec in c["vectors"]:
            run.evaluated()
            sym = C.judge_resp(vec, o["obs"].get(vec["id"]))
            if sym is None:
                run.held()
            else:
                failed = True
                one = dict(c)
                one["vectors"] = [vec]
                run.violation(one, sym, {"observed": o["obs"].get(vec["id"])})
                break  # one witness per case
        if c["corpus"] != "clean":
            run.witness_result(c["corpus"].split(":")[1], failed)
        feats = set(c["features"])
        if feats & {"interface", "union", "named-fragment", "list-depth-1", "list-depth-2"}:
            run.nontrivial(c["schema_text"], c["doc_text"], c["options"])
        if not failed and c["corpus"] == "clean":
            run.sample({"schema": c["schema_text"][:1500], "document": c["doc_text"], "options": c["options"],
                        "vector": c["vectors"][0]["input"] if c["vectors"] else None,
                        "observation": o["obs"].get(c["vectors"][0]["id"]) if c["vectors"] else None}, limit=3)
    run.extra.setdefault("timing", []).append(fac.timing)
    run.extra["rustc"] = {"accepted": sum(1 for v in verdict.values() if v == "accepted") + run.extra.get("rustc", {}).get("accepted", 0),
                          "rejected": sum(1 for v in verdict.values() if isinstance(v, dict)) + run.extra.get("rustc", {}).get("rejected", 0)}
    fac.cleanup()


def main(run):
    run.rule = RULE + BORDERLINE_RULE
    run.assumptions = ["conforming payload = output of vlib/shape.py PayloadGen for the clean document grammar (DESIGN.md section 4)",
                       "rustc / serde / serde_json versions as pinned by /repo/Cargo.lock",
                       "custom scalars are supplied by the consumer as `String`"]
    total = run.size(96, 1920)
    batch = 384
    done = 0
    bi = 0
    while done < total:
        n = min(batch, total - done)
        cs = gen_cases(run, n, prefix="c%d_" % bi)
        if bi == 0:
            cs += hazards.cases_for(run, "C01")
        execute(run, cs, tag="b%d" % bi)
        done += n
        bi += 1
    # a small batch of its own (one driver process): pairs of cases over one query file and two schema files
    execute(run, shared_query_file_cases(run, run.size(8, 24)), tag="sq")
    return run.finish(floor=FLOOR if run.tier == "quick" else {k: v * 10 for k, v in FLOOR.items()})


def replay(run, rec):
    c = rec["case"]
    execute(run, [c], tag="replay")
    return run.finish()
