"""C04 - Variables serialise to exactly the declared variables, validly typed.
Monitor: `vars` trace (reference assignment -> Variables -> build_query -> JSON); oracle: the
schema-driven input validator on the serialised value + key set + exact skip-none rule."""
import json

from .. import cases as C
from ..factory import Factory
from ..gen_vars import gen_input_schema, gen_var_operation, ValueGen, expected_variables, strict_same
from ..model import Schema, is_nn, render_type
from ..shape import valid_input, same
from .. import hazards

RULE = ("schemas rich in input types (nested, recursive through nullable / list edges, @oneOf, lists to depth 3, custom scalars, "
        "enums; field and variable names with Rust keywords and every case style) x operations declaring 1-8 variables of random "
        "input type expressions (queries, mutations and subscriptions) x valid assignments (all-none, all-some, random; nullable members given as null or left out; "
        "list lengths 0-3; every @oneOf member) x skip_serializing_none {off,on} x normalization {none,rust} x schema format "
        "{SDL, JSON}. Each serialised `variables` object is judged against the SCHEMA by an independent validator, not only "
        "against the assignment. The value space of the generated types is also probed from outside: single-point invalid "
        "assignments (null / absent at non-null positions, @oneOf objects with zero or two members or a null member) are fed to "
        "Deserialize for Variables - whatever is accepted is a `Variables` value and must still serialise validly. Non-trivial = case with an input-object or list variable; distinct by (schema, document, options)")

FLOOR = {"assignments": 800, "var:input-object": 30, "var:list": 30, "one-of-value": 20, "skip-on": 20, "norm-rust": 20, "invalid-assignments-probed": 300}


def gen_cases(run, n, prefix="c"):
    rng = run.rng
    out = []
    shared = {}
    for i in range(n):
        if i % 32 >= 16 and (i - 16) in shared:
            # the same schema and operation as case i-16, skip-none the other way round: the two are generated one after the other
            # in ONE driver process (requests are dealt out to 16 processes round-robin), like two derives of one crate
            schema, op = shared[i - 16]
            run.count("cases-sharing-schema-with-the-previous-call")
        else:
            schema = gen_input_schema(rng)
            kind = ["query", "query", "mutation", "query", "subscription"][i % 5]     # variables are declared the same way on every operation kind
            op = gen_var_operation(schema, rng, name=rng.choice(["Op1", "GetThing", "Q9x"]), kind=kind)
            shared[i] = (schema, op)
        doc = {"operations": [op], "fragments": []}
        skip = ((i // 16) + i) % 2 == 1
        opts = {"skip_none": skip}
        if i % 4 >= 2:
            opts["normalization"] = "rust"
        c = C.make_case("%s%d" % (prefix, i), schema, doc, rng, options=opts, fmt=rng.choice(["sdl", "sdl", "json"]))
        vg = ValueGen(schema, rng)
        vecs = []
        for ai in range(run.size(24, 40)):
            mode = {0: "all-none", 1: "all-some"}.get(ai)
            asg = {}
            try:
                for var in op["vars"]:
                    v = vg.value(var["type"], 0, mode)
                    if v is None and not is_nn(var["type"]) and rng.random() < 0.5:
                        continue  # nullable variable left out of the assignment
                    asg[var["name"]] = v
            except RecursionError:
                continue
            vecs.append({"id": "a%d" % ai, "kind": "vars", "target": op["name"], "input": asg,
                         "expect": {"variables": expected_variables(schema, op, asg, skip)}})
        # the value space of the generated types, probed from outside: invalid assignments
        for bi_, base_vec in enumerate([v for v in vecs if v["input"]][1:3]):
            for xi, (label, bad) in enumerate(invalidations(schema, op, base_vec["input"], rng, limit=run.size(8, 16))):
                vecs.append({"id": "%s.x%d" % (base_vec["id"], xi), "kind": "vars-reach", "target": op["name"], "input": bad, "label": label, "expect": {}})
        # enum values: a symmetric renaming bug is invisible through deserialise-then-serialise (the value just lands
        # in Other(s) and comes back); so each schema value must also be a proper variant that prints as itself
        for en in schema.of_kind("enum"):
            for vi, val in enumerate(schema.types[en]["values"]):
                vecs.append({"id": "ev.%s.%d" % (en, vi), "kind": "enum", "target": "@enum-of:" + en, "input": val, "expect": {"known": True}})
        c["vectors"] = vecs
        feats = set()
        for var in op["vars"]:
            t = var["type"]
            b = t
            while b[0] != "named":
                if b[0] == "list":
                    feats.add("var:list")
                b = b[1]
            k = schema.kind(b[1])
            feats.add("var:" + {"input": "input-object", "enum": "enum", "scalar": "scalar"}[k])
            if k == "input" and schema.types[b[1]].get("one_of"):
                feats.add("var:one-of")
        if skip:
            feats.add("skip-on")
        if opts.get("normalization") == "rust":
            feats.add("norm-rust")
        c["features"] = sorted(feats)
        out.append(c)
    return out


def invalidations(schema, op, asg, rng, limit=10):
    """single-point departures from a valid assignment that make it INVALID for the schema: null / absent at a non-null
    position, a @oneOf object with zero or two members. Fed to Deserialize for Variables: if the generated types have such
    a value at all (a non-null member typed Option, a @oneOf input typed as a struct), it must not serialise to it."""
    import copy
    spots = []   # (label, function applied to a deep copy)

    def walk(v, t, path, setter, deleter):
        if t[0] == "nn":
            spots.append(("null@" + path, lambda: setter(None)))
            if deleter is not None:
                spots.append(("absent@" + path, deleter))
            return walk(v, t[1], path, setter, None)
        if v is None:
            return
        if t[0] == "list":
            for i, x in enumerate(v[:2]):
                walk(x, t[1], "%s[%d]" % (path, i), (lambda nv, v=v, i=i: v.__setitem__(i, nv)), None)
            return
        if schema.kind(t[1]) != "input":
            return
        td = schema.types[t[1]]
        fm = dict((f, ft) for f, ft in td["fields"])
        if td.get("one_of"):
            spots.append(("oneof-empty@" + path, lambda v=v: v.clear()))
            others = [f for f in fm if f not in v]
            if others:
                # a second member, with the cheapest valid value for its type
                f2 = others[0]
                spots.append(("oneof-two@" + path, lambda v=v, f2=f2: v.__setitem__(f2, cheap(fm[f2]))))
            for k in list(v):
                spots.append(("oneof-null-member@" + path, lambda v=v, k=k: v.__setitem__(k, None)))
        for k, x in list(v.items()):
            if k in fm:
                walk(x, fm[k], path + "." + k, (lambda nv, v=v, k=k: v.__setitem__(k, nv)), (lambda v=v, k=k: v.pop(k, None)))
        for f, ft in td["fields"]:
            if f not in v and is_nn(ft):
                pass

    def cheap(t):
        while t[0] == "nn":
            t = t[1]
        if t[0] == "list":
            return []
        k = schema.kind(t[1])
        if k == "enum":
            return schema.types[t[1]]["values"][0]
        if k == "input":
            return {}
        return {"Int": 1, "Float": 1.5, "Boolean": True}.get(t[1], "s")
    out = []
    # positions are discovered on one copy, each edit is applied to a fresh copy (paths are re-walked by index)
    probe = copy.deepcopy(asg)
    for var in op["vars"]:
        if var["name"] in probe:
            walk(probe[var["name"]], var["type"], "$" + var["name"], (lambda nv, n=var["name"]: probe.__setitem__(n, nv)),
                 (lambda n=var["name"]: probe.pop(n, None)))
    n_spots = len(spots)
    idxs = list(range(n_spots))
    rng.shuffle(idxs)
    for idx in idxs[:limit]:
        spots.clear()
        probe = copy.deepcopy(asg)
        for var in op["vars"]:
            if var["name"] in probe:
                walk(probe[var["name"]], var["type"], "$" + var["name"], (lambda nv, n=var["name"], probe=probe: probe.__setitem__(n, nv)),
                     (lambda n=var["name"], probe=probe: probe.pop(n, None)))
        if idx >= len(spots):
            continue
        label, fn = spots[idx]
        fn()
        out.append((label, probe))
    return out


def count_one_of(schema, v, t):
    n = 0
    if v is None:
        return 0
    while t[0] == "nn":
        t = t[1]
    if t[0] == "list":
        return sum(count_one_of(schema, x, t[1]) for x in v)
    if schema.kind(t[1]) == "input":
        td = schema.types[t[1]]
        if td.get("one_of"):
            n += 1
        fm = dict((f, ft) for f, ft in td["fields"])
        for k, x in v.items():
            if k in fm:
                n += count_one_of(schema, x, fm[k])
    return n


def judge(c, vec, o):
    if vec["kind"] == "enum":
        if o is None or "no_such_probe" in o:
            return None   # the enum is not used by this operation (not emitted): nothing to observe
        if not o.get("ok") or o.get("reser") != vec["input"]:
            return "enum value %r does not round-trip: %s" % (vec["input"], json.dumps(o)[:120])
        if str(o.get("debug", "")).startswith("Other("):
            return "schema enum value %r is not a variant of the generated enum (lands in %s): constructing it from Rust cannot give the schema's name" % (vec["input"], o.get("debug"))
        return None
    if vec["kind"] == "vars-reach":
        # an assignment that is invalid for the schema: the generated types should have no such value (deserialisation
        # fails); if they do, that value must still serialise to something valid - it is a value of `Variables`
        if o is None or "no_such_probe" in o:
            return "no-observation"
        if not o.get("ok"):
            return None
        schema = Schema(c["schema_model"])
        op = c["doc_model"]["operations"][0]
        vs = (o.get("body") or {}).get("variables")
        if not isinstance(vs, dict):
            return "variables-not-an-object: %s" % json.dumps(vs)[:60]
        declared = {v["name"]: v["type"] for v in op["vars"]}
        for k, x in vs.items():
            if k not in declared:
                return "undeclared-key: %s" % k
            r = valid_input(schema, x, declared[k], "$" + k)
            if r:
                return "a Variables value exists (reached through %s) that serialises invalidly: %s" % (vec.get("label"), r)
        for k, t in declared.items():
            if is_nn(t) and k not in vs:
                return "a Variables value exists (reached through %s) that omits the required variable %s" % (vec.get("label"), k)
        return None
    if not c.get("schema_model") or not c.get("doc_model"):
        # committed witness without a model: judged against its stored expectation only
        if o is None or not o.get("ok"):
            return "not-expressible: %s" % (o and o.get("err"))
        vs = (o.get("body") or {}).get("variables")
        return None if strict_same(vs, vec["expect"]["variables"]) else "witness: got %s expected %s" % (json.dumps(vs)[:150], json.dumps(vec["expect"]["variables"])[:150])
    schema = Schema(c["schema_model"])
    op = c["doc_model"]["operations"][0]
    skip = bool(c["options"].get("skip_none"))
    if o is None:
        return "no-observation"
    if "no_such_probe" in o:
        return "no-such-probe"
    if not o.get("ok"):
        return "not-expressible: %s" % o.get("err")
    body = o.get("body")
    if not isinstance(body, dict) or set(body.keys()) != {"variables", "query", "operationName"}:
        return "body-members: %s" % (sorted(body.keys()) if isinstance(body, dict) else type(body).__name__)
    vs = body["variables"]
    if not isinstance(vs, dict):
        return "variables-not-an-object: %s" % json.dumps(vs)[:60]
    declared = {v["name"]: v["type"] for v in op["vars"]}
    for k in vs:
        if k not in declared:
            return "undeclared-key: %s" % k
    if not skip:
        for k in declared:
            if k not in vs:
                return "missing-key: %s" % k
    for k, x in vs.items():
        r = valid_input(schema, x, declared[k], "$" + k)
        if r:
            return "invalid-for-schema: %s" % r
    for k, t in declared.items():
        if is_nn(t) and k not in vs:
            return "missing-required-key: %s" % k
    exp = vec["expect"]["variables"]
    if not same(vs, {k: v for k, v in vec["input"].items()}):
        return "differs-from-assignment: %s vs %s" % (json.dumps(vs)[:150], json.dumps(vec["input"])[:150])
    if not strict_same(vs, exp):
        return "skip-none-rule(%s): got %s expected %s" % ("on" if skip else "off", json.dumps(vs)[:200], json.dumps(exp)[:200])
    return None


def execute(run, cases, tag="b0"):
    fac = Factory("%s-%s-%d" % (run.prop, tag, run.seed))
    gen, verdict, obs = fac.run(cases)
    for c in cases:
        cid = c["id"]
        g = gen[cid]
        if g["outcome"] != "ok":
            run.violation(c, "generation-%s: %s" % (g["outcome"], (g.get("message") or "")[:200]))
            continue
        v = verdict.get(cid)
        if v == "inconclusive":
            run.inconclusive_case(cid, "build failed without attribution %s" % (fac.unattributed[:1],))
            continue
        if v != "accepted":
            run.violation(c, "rustc %s: %s" % (v.get("code"), v.get("message")))
            continue
        o = obs.get(cid)
        if o is None or o.get("signal") or o.get("exit") != 0:
            run.inconclusive_case(cid, "probe exit=%s signal=%s" % (o and o.get("exit"), o and o.get("signal")))
            continue
        run.feature(c["features"])
        has_model = bool(c.get("schema_model") and c.get("doc_model"))
        schema = Schema(c["schema_model"]) if has_model else None
        op = c["doc_model"]["operations"][0] if has_model else {"vars": []}
        failed = False
        for vec in c["vectors"]:
            run.evaluated()
            if vec["kind"] == "enum":
                run.count("enum-values-checked")
            elif vec["kind"] == "vars-reach":
                run.count("invalid-assignments-probed")
                run.count("invalid:" + vec["label"].split("@")[0])
            else:
                run.count("assignments")
            for var in (op["vars"] if vec["kind"] == "vars" else []):
                n1 = count_one_of(schema, vec["input"].get(var["name"]), var["type"])
                if n1:
                    run.count("one-of-value", n1)
            sym = judge(c, vec, o["obs"].get(vec["id"]))
            if sym is None:
                run.held()
            else:
                failed = True
                one = dict(c)
                one["vectors"] = [vec]
                run.violation(one, sym, {"observed": o["obs"].get(vec["id"])})
                break
        if c["corpus"] != "clean":
            run.witness_result(c["corpus"].split(":")[1], failed)
        if set(c["features"]) & {"var:input-object", "var:list"}:
            run.nontrivial(c["schema_text"], c["doc_text"], c["options"])
        if not failed and c["vectors"]:
            vec = c["vectors"][-1]
            run.sample({"document": c["doc_text"], "options": c["options"], "assignment": vec["input"],
                        "observed_body_variables": (o["obs"].get(vec["id"]) or {}).get("body", {}).get("variables")}, limit=3)
    run.extra.setdefault("timing", []).append(fac.timing)
    fac.cleanup()


def deprecated_input_cases(run):
    """`@deprecated` on input fields and @oneOf members (legal since the 2021 spec): the deprecation strategies are about response
    fields; whatever they are set to, every declared input field stays expressible and goes on the wire (explicit null when
    absent, skip-none off)"""
    from ..model import Schema, T, NN
    out = []
    for si, strat in enumerate(["deny", "warn", "allow", None]):
        s = Schema()
        s.add("Range", {"kind": "input", "one_of": True, "fields": [["bucket", T("Int")], ["exact", T("Int")]]})
        s.add("Filter", {"kind": "input", "one_of": False, "fields": [["legacyId", T("ID")], ["name", T("String")], ["range", T("Range")]]})
        s.add("Query", {"kind": "object", "implements": [], "fields": [{"name": "x", "type": T("Int"), "args": [["f", T("Filter")]], "deprecated": None}]})
        op = {"kind": "query", "name": "Find", "vars": [{"name": "f", "type": T("Filter"), "default": None}], "sel": [["field", None, "x", "(f: $f)", None]]}
        doc = {"operations": [op], "fragments": []}
        opts = {"skip_none": False}
        if strat:
            opts["deprecation"] = strat
        c = C.make_case("dep%d" % si, s, doc, run.rng, options=opts, fmt="sdl")
        c["schema_text"] = ("input Range @oneOf { bucket: Int @deprecated(reason: \"use exact\") exact: Int }\n"
                            "input Filter { legacyId: ID @deprecated(reason: \"use name\") name: String range: Range }\n"
                            "type Query { x(f: Filter): Int }\ndirective @oneOf on INPUT_OBJECT\n")
        c["schema_ext"] = "graphql"
        vecs = []
        for ai, asg in enumerate([{"f": {"legacyId": "7", "name": "n", "range": {"bucket": 3}}}, {"f": {"legacyId": "8", "name": None, "range": {"exact": 1}}}, {"f": {"name": "only"}}]):
            exp = {"f": {"legacyId": asg["f"].get("legacyId"), "name": asg["f"].get("name"), "range": asg["f"].get("range")}}
            vecs.append({"id": "a%d" % ai, "kind": "vars", "target": "Find", "input": asg, "expect": {"variables": exp}})
        c["vectors"] = vecs
        c["features"] = ["deprecated-input-field"]
        out.append(c)
    return out


def main(run):
    run.rule = RULE
    run.assumptions = ["valid assignment = output of vlib/gen_vars.py ValueGen (IDs as strings, Int within 32 bits, custom scalars as strings)",
                       "validator = vlib/shape.py valid_input (GraphQL input coercion rules + @oneOf RFC)",
                       "an operation without variables is a hazard-corpus case (finding K7), every clean operation declares >= 1 variable"]
    total = run.size(80, 1440)
    batch = 360
    done = 0
    bi = 0
    while done < total:
        n = min(batch, total - done)
        cs = gen_cases(run, n, prefix="b%dc" % bi)
        if bi == 0:
            cs += hazards.cases_for(run, "C04")
            cs += deprecated_input_cases(run)
        execute(run, cs, tag="b%d" % bi)
        done += n
        bi += 1
    return run.finish(floor=FLOOR if run.tier == "quick" else {k: v * 10 for k, v in FLOOR.items()})


def replay(run, rec):
    execute(run, [rec["case"]], tag="replay")
    return run.finish()
