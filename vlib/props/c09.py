"""C09 - Rust-side options never change the JSON wire format.
Monitor: the same vectors (conforming payloads, corruptions, variable assignments) run through the
compiled code of one operation under several wire-neutral option sets; oracle: the observations
(accept / reject, re-serialised payload, serialised request body) must be identical."""
import json

from .. import cases as C
from ..factory import Factory
from ..gen_schema import gen_schema
from ..gen_query import gen_document
from ..gen_vars import ValueGen
from ..model import Schema, is_nn
from ..shape import same
from .. import names

RULE = ("each clean (schema, document) is compiled under a baseline option set and 3 variants drawn from normalization {none, rust} x "
        "extra response / variables derives x module visibility {pub, pub(crate), inherited} x custom-scalars module {super, "
        "dedicated module} x extern-enum subsets (consumer enum with the reference wire behaviour) x serde path {::serde, serde, "
        "graphql_client::_private::serde, two re-exports inside the consumer crate} x delivery {library, derive macro (one member of most groups)}; four fixed groups whose members all declare one enum external, the consumer's enum being strict (no catch-all), under names that change with normalization; one member of most groups has no variables derives at all; every document has an operation without variables whose body is built from a `Variables {}` literal; every vector (C01 payloads, C03 corruptions, valid variable assignments) must yield "
        "the same accept/reject decision, the same re-serialised payload and the same serialised body under all of them. "
        "Non-trivial = group whose variants differ in normalization, extern enums or scalar module; distinct by (schema, document, variant options)")

FLOOR = {"groups": 30, "variant-comparisons": 90, "vectors-compared": 5000, "dim:normalization": 10, "dim:extern_enums": 5, "dim:custom_scalars_module": 5,
         "dim:serde_path": 5, "dim:visibility": 10, "dim:derives": 10, "dim:derive-delivery": 8, "dim:no-variables-derives": 20, "dim:strict-extern-enum": 8}


def variant_options(rng, schema, cid, force_dim=None):
    o = {}
    dims = []
    enums = schema.of_kind("enum")

    def take(d, p):
        return force_dim == d or rng.random() < p
    if take("normalization", 0.5):
        o["normalization"] = "rust"
        dims.append("normalization")
    if take("derives", 0.5):
        o["response_derives"] = "Serialize,Debug,PartialEq,Clone"
        o["variables_derives"] = "Deserialize,Debug,Clone"
        dims.append("derives")
    if take("visibility", 0.5):
        o["visibility"] = rng.choice(["pub(crate)", "inherited"])
        dims.append("visibility")
    if schema.of_kind("scalar") and take("custom_scalars_module", 0.4):
        o["custom_scalars_module"] = "crate::%s::scalars" % cid
        dims.append("custom_scalars_module")
    if enums and take("extern_enums", 0.4):
        o["extern_enums"] = sorted(rng.sample(enums, rng.randint(1, len(enums))))
        dims.append("extern_enums")
    if take("serde_path", 0.4):
        # the path is the consumer's choice: the crate itself, graphql_client's re-export, or a re-export of their own
        o["serde_path"] = ["graphql_client::_private::serde", "crate::%s::reexports::serde" % cid, "serde", "crate::%s::deps::serde_crate" % cid][sum(ord(ch) for ch in cid) % 4]
        dims.append("serde_path")
    return o, dims


def gen_groups(run, n):
    rng = run.rng
    groups = []
    schema = None
    dims_cycle = ["normalization", "extern_enums", "custom_scalars_module", "serde_path", "visibility", "derives"]
    for gi in range(n):
        enum_free = (gi % 6 == 5)
        if enum_free:
            # no enum anywhere: the derive lists may then also be spelt as paths (`serde::Serialize`), which must not matter
            schema = gen_schema(rng, odd_type_names=True, n_enum=0, n_input=0, args=False)
        elif gi % 2 == 0:
            schema = gen_schema(rng, odd_type_names=True, n_enum=rng.randint(1, 3), n_input=rng.randint(1, 3))
            # at least one enum value that is a Rust keyword and one that changes under normalization
            for e0 in schema.of_kind("enum"):
                for extra in ("type", "in_progress"):
                    if extra not in schema.types[e0]["values"] and names.camel(extra) not in {names.camel(v) for v in schema.types[e0]["values"]}:
                        schema.types[e0]["values"].append(extra)
        doc, feats = gen_document(schema, rng, n_ops=rng.choice([1, 1, 2]))
        # an operation that declares no variables: its request body must not depend on the options either
        doc["operations"].append({"kind": "query", "name": "NoVars%d" % gi, "vars": [], "sel": [["typename"]]})
        other = rng.random() < 0.4      # not wire-neutral: held constant inside a group
        skip = rng.random() < 0.3 or enum_free
        base_opts = {"other_variant": other, "skip_none": skip}
        base = C.make_case("g%dv0" % gi, schema, doc, rng, options=base_opts, features=feats)
        vecs, stats = C.resp_vectors(base, rng, n_payloads=6, n_corrupt_bases=1, other_variant=other)
        # valid assignments for the operations' variables
        vg = ValueGen(schema, rng, max_depth=3)
        for op in doc["operations"]:
            for ai in range(4):
                try:
                    asg = {}
                    for var in op.get("vars", []):
                        v = vg.value(var["type"], 0, {0: "all-some", 1: "all-none"}.get(ai))
                        if v is None and not is_nn(var["type"]) and rng.random() < 0.5:
                            continue
                        asg[var["name"]] = v
                except RecursionError:
                    continue
                vecs.append({"id": "%s.a%d" % (op["name"], ai), "kind": "vars", "target": op["name"], "input": asg, "expect": {}})
        for op in doc["operations"]:
            if not op.get("vars"):
                vecs.append({"id": "%s.body0" % op["name"], "kind": "vars0", "target": op["name"], "input": {}, "expect": {}})
        # which schema enum values are proper variants (a symmetric renaming bug hides behind Other(s) in a round trip)
        for en in schema.of_kind("enum"):
            for vi, val in enumerate(schema.types[en]["values"]):
                vecs.append({"id": "ev.%s.%d" % (en, vi), "kind": "enum", "target": "@enum-of:" + en, "input": val, "expect": {}})
        base["vectors"] = vecs
        members = [base]
        all_dims = [[]]
        for vi in range(1, 4):
            cid = "g%dv%d" % (gi, vi)
            # the first variant of every group differs (at least) in normalization, the others cycle through the rest
            vo, dims = variant_options(rng, schema, cid, force_dim="normalization" if vi == 1 else dims_cycle[(gi * 2 + vi) % len(dims_cycle)])
            if vi == 1:
                vo.pop("extern_enums", None)
                dims = [d for d in dims if d != "extern_enums"]
            opts = dict(base_opts)
            opts.update(vo)
            if vi == 2 and not enum_free:
                opts.pop("serde_path", None)      # this member goes through the derive macro, which fixes the serde path
                dims = [d for d in dims if d != "serde_path"]
            if vi == 3 and not enum_free:
                # no extra variables derives at all (the vectors that need Deserialize for Variables are then not observable
                # for this member; the bodies of variable-less operations still are)
                opts["variables_derives"] = None
                dims = dims + ["no-variables-derives"]
            if enum_free:
                opts["response_derives"] = ["serde::Serialize, Debug, PartialEq", "Debug,::serde::Serialize,PartialEq", "Debug, PartialEq, serde::Serialize , Clone"][vi - 1]
                opts["skip_none"] = base_opts["skip_none"]
                dims = dims + ["derive-paths"]
            c = C.make_case(cid, schema, doc, rng, options=opts, fmt=base["schema_format"], features=feats)
            if vi == 2 and "serde_path" not in opts and not enum_free and not any(names.snake(o_["name"]) == o_["name"] for o_ in doc["operations"]):
                # this member of the group reaches the generator through the derive macro (options as attribute items)
                c["delivery"] = "derive"
                dims = dims + ["derive-delivery"]
                if gi % 2 == 1:
                    # ... preceded, in the same crate, by a derive of the same operation with the skip-none flag the other way round
                    c["derive_warmup"] = {"skip_none": not opts.get("skip_none")}
                    dims = dims + ["derive-after-twin"]
            # identical inputs: same schema text, same document, same vectors
            c["schema_text"], c["schema_ext"] = base["schema_text"], base["schema_ext"]
            c["vectors"] = vecs
            members.append(c)
            all_dims.append(dims)
        groups.append((members, all_dims))
    groups += strict_extern_groups(rng)
    return groups


def strict_extern_groups(rng):
    """groups in which EVERY member declares the same enum as external and the consumer's enum is strict (no catch-all): what
    the operation accepts then depends on the consumer's type alone - under every normalization, derive list, visibility.
    Enum names that change under normalization (`order_by`, `sortDir`, `HTTPVerb`) and one that does not"""
    from ..model import Schema, T, NN
    out = []
    for gi, en in enumerate(["order_by", "sortDir", "HTTPVerb", "Direction"]):
        s = Schema()
        s.add(en, {"kind": "enum", "values": ["asc", "DESC", "Side_Ways"]})
        s.add("Query", {"kind": "object", "implements": [], "fields": [
            {"name": "items", "type": T("Int"), "args": [["dir", T(en)]], "deprecated": None},
            {"name": "order", "type": T(en), "args": [], "deprecated": None},
            {"name": "orders", "type": NN(("list", NN(T(en)))), "args": [], "deprecated": None}]})
        doc = {"operations": [{"kind": "query", "name": "Sorted%d" % gi, "vars": [{"name": "dir", "type": T(en), "default": None}],
                               "sel": [["field", None, "items", "(dir: $dir)", None], ["field", None, "order", None, None], ["field", None, "orders", None, None]]}], "fragments": []}
        vecs = []
        for k, (o, os_) in enumerate([("asc", ["DESC"]), ("Side_Ways", []), (None, ["asc", "asc"]), ("sideways", []), ("ASC", ["DESC"]), ("asc", ["nope"]), ("", [])]):
            vecs.append({"id": "Sorted%d.p%d" % (gi, k), "kind": "resp", "target": "Sorted%d" % gi, "input": {"items": 1, "order": o, "orders": os_}, "expect": {}, "label": "strict-extern"})
        for k, v in enumerate(["asc", "DESC", None, "sideways", "Asc"]):
            vecs.append({"id": "Sorted%d.a%d" % (gi, k), "kind": "vars", "target": "Sorted%d" % gi, "input": {"dir": v}, "expect": {}})
        members, all_dims = [], []
        for vi, vo in enumerate([{}, {"normalization": "rust"}, {"normalization": "rust", "response_derives": "Serialize,Debug,PartialEq,Clone", "visibility": "pub(crate)"}, {"visibility": "inherited"}]):
            opts = {"extern_enums": [en], "other_variant": False, "skip_none": False}
            opts.update(vo)
            c = C.make_case("x%dv%d" % (gi, vi), s, doc, rng, options=opts, fmt="sdl" if gi % 2 == 0 else "json")
            c["support"]["extern_enums_strict"] = True
            if members:
                c["schema_text"], c["schema_ext"], c["schema_format"] = members[0]["schema_text"], members[0]["schema_ext"], members[0]["schema_format"]
            c["vectors"] = vecs
            members.append(c)
            all_dims.append(["extern_enums", "strict-extern-enum"] + (["normalization"] if vo.get("normalization") else []))
        out.append((members, all_dims))
    # several external enums, listed in an order that is neither sorted nor the schema's
    s = Schema()
    enums3 = ["Zeta", "alpha", "Mid"]
    for en in enums3:
        s.add(en, {"kind": "enum", "values": ["one", "TWO"]})
    s.add("Query", {"kind": "object", "implements": [], "fields": [{"name": "f%d" % k, "type": T(en), "args": [["v", T(en)]], "deprecated": None} for k, en in enumerate(enums3)]})
    doc = {"operations": [{"kind": "query", "name": "ThreeEnums", "vars": [{"name": "v%d" % k, "type": T(en), "default": None} for k, en in enumerate(enums3)],
                           "sel": [["field", None, "f%d" % k, "(v: $v%d)" % k, None] for k in range(3)]}], "fragments": []}
    vecs = []
    for k, (a, b, c3) in enumerate([("one", "TWO", "one"), ("nope", "one", "one"), ("one", "nope", "one"), ("one", "one", "nope"), (None, None, None)]):
        vecs.append({"id": "ThreeEnums.p%d" % k, "kind": "resp", "target": "ThreeEnums", "input": {"f0": a, "f1": b, "f2": c3}, "expect": {}, "label": "strict-extern"})
        vecs.append({"id": "ThreeEnums.a%d" % k, "kind": "vars", "target": "ThreeEnums", "input": {"v0": a, "v1": b, "v2": c3}, "expect": {}})
    members, all_dims = [], []
    for vi, (order, vo) in enumerate([(["Zeta", "alpha", "Mid"], {}), (["alpha", "Zeta", "Mid"], {"normalization": "rust"}), (["Mid", "Zeta", "alpha"], {"visibility": "pub(crate)"}), (["Zeta", "Mid", "alpha"], {"response_derives": "Serialize,Debug,PartialEq,Clone"})]):
        opts = {"extern_enums": order, "other_variant": False, "skip_none": False}
        opts.update(vo)
        c = C.make_case("x9v%d" % vi, s, doc, rng, options=opts, fmt="sdl")
        c["support"]["extern_enums_strict"] = True
        if members:
            c["schema_text"], c["schema_ext"], c["schema_format"] = members[0]["schema_text"], members[0]["schema_ext"], members[0]["schema_format"]
        c["vectors"] = vecs
        members.append(c)
        all_dims.append(["extern_enums", "strict-extern-enum", "extern-enum-order"])
    out.append((members, all_dims))
    # `Default` among the response derives (possible where every field type has a default: objects and scalars only): what the
    # types accept must not change - a missing non-null sibling of a nullable ID stays an error
    s = Schema()
    s.add("Item", {"kind": "object", "implements": [], "fields": [{"name": "id", "type": T("ID"), "args": [], "deprecated": None}, {"name": "name", "type": NN(T("String")), "args": [], "deprecated": None},
                                                                   {"name": "count", "type": NN(T("Int")), "args": [], "deprecated": None}, {"name": "tags", "type": NN(("list", NN(T("String")))), "args": [], "deprecated": None},
                                                                   {"name": "parent", "type": T("Item"), "args": [], "deprecated": None}]})
    s.add("Query", {"kind": "object", "implements": [], "fields": [{"name": "item", "type": T("Item"), "args": [], "deprecated": None}, {"name": "plain", "type": NN(T("Int")), "args": [], "deprecated": None}]})
    doc = {"operations": [{"kind": "query", "name": "WithDefault", "vars": [], "sel": [["field", None, "plain", None, None], ["field", None, "item", None, [["field", None, "id", None, None], ["field", None, "name", None, None],
                           ["field", None, "count", None, None], ["field", None, "tags", None, None], ["field", None, "parent", None, [["field", None, "id", None, None], ["field", None, "name", None, None]]]]]]}], "fragments": []}
    full = {"plain": 1, "item": {"id": "i", "name": "n", "count": 2, "tags": ["t"], "parent": {"id": 7, "name": "p"}}}
    vecs = [{"id": "WithDefault.full", "kind": "resp", "target": "WithDefault", "input": full, "expect": {}, "label": "conforming"}]
    import copy as _copy
    for k, path in enumerate([("plain",), ("item", "name"), ("item", "count"), ("item", "tags"), ("item", "parent", "name"), ("item", "id"), ("item", "parent", "id")]):
        p2 = _copy.deepcopy(full)
        t = p2
        for key in path[:-1]:
            t = t[key]
        del t[path[-1]]
        vecs.append({"id": "WithDefault.del%d" % k, "kind": "resp", "target": "WithDefault", "input": p2, "expect": {}, "label": "del@" + "/".join(path)})
    members, all_dims = [], []
    for vi, rd in enumerate(["Serialize,Debug,PartialEq", "Serialize,Debug,PartialEq,Default", "Default,Serialize,Debug,PartialEq,Clone", "Serialize, Debug, PartialEq, Default"]):
        opts = {"other_variant": False, "skip_none": False, "response_derives": rd}
        if vi == 2:
            opts["normalization"] = "rust"
        c = C.make_case("x10v%d" % vi, s, doc, rng, options=opts, fmt="sdl")
        if members:
            c["schema_text"], c["schema_ext"], c["schema_format"] = members[0]["schema_text"], members[0]["schema_ext"], members[0]["schema_format"]
        c["vectors"] = vecs
        members.append(c)
        all_dims.append(["derives", "default-derive"])
    out.append((members, all_dims))
    # @oneOf inputs (rendered as Rust enums) whose member names change under normalization, as a variable and nested in an
    # input object: the member name on the wire is the GraphQL one under every option set (C09-r10m1)
    s = Schema()
    s.add("BookBy", {"kind": "input", "one_of": True, "fields": [["author", T("Int")], ["isbnCode", T("String")], ["by_title", T("String")], ["type", T("Int")], ["HTTPRef", T("String")]]})
    s.add("Wrapper", {"kind": "input", "one_of": False, "fields": [["pick", T("BookBy")], ["picks", ("list", NN(T("BookBy")))]]})
    s.add("Query", {"kind": "object", "implements": [], "fields": [{"name": "book", "type": T("Int"), "args": [["by", T("BookBy")], ["w", T("Wrapper")]], "deprecated": None}]})
    doc = {"operations": [{"kind": "query", "name": "FindBook", "vars": [{"name": "by", "type": T("BookBy"), "default": None}, {"name": "w", "type": T("Wrapper"), "default": None}],
                           "sel": [["field", None, "book", "(by: $by, w: $w)", None]]}], "fragments": []}
    members_of = [("author", 7), ("isbnCode", "x"), ("by_title", "t"), ("type", 1), ("HTTPRef", "r")]
    vecs = []
    for k, (m, v) in enumerate(members_of):
        vecs.append({"id": "FindBook.a%d" % k, "kind": "vars", "target": "FindBook", "input": {"by": {m: v}}, "expect": {}})
        vecs.append({"id": "FindBook.n%d" % k, "kind": "vars", "target": "FindBook", "input": {"w": {"pick": {m: v}, "picks": [{m: v}, {members_of[(k + 1) % 5][0]: members_of[(k + 1) % 5][1]}]}}, "expect": {}})
    members, all_dims = [], []
    for vi, vo in enumerate([{}, {"normalization": "rust"}, {"normalization": "rust", "variables_derives": "Deserialize,Debug,PartialEq,Clone"}, {"visibility": "pub(crate)"}]):
        opts = {"other_variant": False, "skip_none": False}       # (skip-none is not wire-neutral: constant inside a group)
        opts.update(vo)
        c = C.make_case("x11v%d" % vi, s, doc, rng, options=opts, fmt="sdl")
        if members:
            c["schema_text"], c["schema_ext"], c["schema_format"] = members[0]["schema_text"], members[0]["schema_ext"], members[0]["schema_format"]
        c["vectors"] = vecs
        members.append(c)
        all_dims.append((["normalization"] if vo.get("normalization") else []) + ["one-of-members"])
    out.append((members, all_dims))
    return out


def strip(ob):
    """what is compared: decisions and JSON, not error texts (they legitimately name Rust identifiers)"""
    if ob is None:
        return None
    if "no_such_probe" in ob:
        return {"absent": True}     # extern enum / unused enum: no generated type to probe under this option set
    out = {"ok": ob.get("ok")}
    if "debug" in ob:
        out["is_other"] = str(ob["debug"]).startswith("Other(")
    for k in ("reser", "body"):
        if k in ob:
            out[k] = ob[k]
    if isinstance(ob.get("str"), dict):
        out["str"] = {"ok": ob["str"].get("ok"), "reser": ob["str"].get("reser")}
    return out


def main(run):
    run.rule = RULE
    run.assumptions = ["fragments_other_variant, skip_serializing_none and the deprecation strategy are not wire-neutral by design: held constant inside a group",
                       "the consumer's extern enums implement the reference wire behaviour (string <-> variant, Other(s))"]
    groups = gen_groups(run, run.size(36, 500))
    cases = [c for members, _ in groups for c in members]
    fac = Factory("C09-%d" % run.seed)
    gen, verdict, obs = fac.run(cases)
    for members, all_dims in groups:
        base = members[0]
        run.count("groups")
        usable = []
        for c, dims in zip(members, all_dims):
            cid = c["id"]
            g = gen[cid]
            v = verdict.get(cid)
            if g["outcome"] != "ok":
                run.violation(c, "generation-%s under options %s: %s" % (g["outcome"], json.dumps(c["options"]), (g.get("message") or "")[:160]))
                continue
            if v == "inconclusive":
                run.inconclusive_case(cid, "build failed without attribution %s" % (fac.unattributed[:1],))
                continue
            if v != "accepted":
                run.violation(c, "rustc %s under options %s: %s" % (v.get("code"), json.dumps(c["options"]), v.get("message")))
                continue
            o = obs.get(cid)
            if o is None or o.get("signal") or o.get("exit") != 0:
                run.inconclusive_case(cid, "probe exit=%s signal=%s" % (o and o.get("exit"), o and o.get("signal")))
                continue
            usable.append((c, dims, o["obs"]))
        if len(usable) < 2 or usable[0][0] is not base:
            continue
        b_obs = usable[0][2]
        for c, dims, o in usable[1:]:
            run.evaluated()
            run.count("variant-comparisons")
            for d in dims:
                run.count("dim:" + d)
            diff = None
            for vec in base["vectors"]:
                run.count("vectors-compared")
                a, b = strip(b_obs.get(vec["id"])), strip(o.get(vec["id"]))
                if vec["kind"] in ("enum", "vars") and ((a or {}).get("absent") or (b or {}).get("absent")):
                    continue
                if a != b:
                    # identical means identical: a member written as null under one option set and left out under
                    # another is a wire difference
                    diff = (vec, a, b)
                    break
            if diff:
                vec, a, b = diff
                one = dict(c)
                one["vectors"] = [vec]
                one["baseline_options"] = base["options"]
                run.violation(one, "wire behaviour changes with options %s (vs %s) on vector %s [%s]: %s vs %s"
                              % (json.dumps({k: v for k, v in c["options"].items() if base["options"].get(k) != v}), "baseline", vec["id"], vec.get("label", vec["kind"]),
                                 json.dumps(b)[:160], json.dumps(a)[:160]))
            else:
                run.held()
                if set(dims) & {"normalization", "extern_enums", "custom_scalars_module"}:
                    run.nontrivial(base["schema_text"], base["doc_text"], c["options"])
                run.sample({"document": base["doc_text"][:300], "baseline": base["options"], "variant": c["options"], "vectors": len(base["vectors"])}, limit=4)
    run.extra["timing"] = fac.timing
    fac.cleanup()
    return run.finish(floor=FLOOR if run.tier == "quick" else {k: (v * 10 if k != "dim:strict-extern-enum" else v) for k, v in FLOOR.items()})     # (four fixed groups)


def replay(run, rec):
    c = rec["case"]
    base = dict(c)
    base["id"] = c["id"] + "_base"
    base["options"] = c.get("baseline_options") or C.DEFAULT_OPTIONS
    base["support"] = C.support_for(Schema(c["schema_model"]), base["options"])
    fac = Factory("C09-replay")
    gen, verdict, obs = fac.run([base, c])
    run.evaluated()
    a = strip((obs.get(base["id"]) or {}).get("obs", {}).get(c["vectors"][0]["id"]))
    b = strip((obs.get(c["id"]) or {}).get("obs", {}).get(c["vectors"][0]["id"]))
    print("baseline:", json.dumps(a)[:400])
    print("variant :", json.dumps(b)[:400])
    if a != b:
        run.violation(c, "replayed difference")
    else:
        run.held()
    fac.cleanup()
    return run.finish()
