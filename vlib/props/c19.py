"""C19 - `graphql-client generate` writes exactly the library's output to the right file.
Monitor: exit status, stderr and files written by the graphql-client binary built from the
working tree, for flag combinations x (schema, query) pairs; oracle: the library's token stream
for the corresponding options (through the same rustfmt when formatting), the documented
placement, and - on generation errors - non-zero exit with no file written or changed."""
import hashlib
import json
import os
import shutil
import subprocess
from concurrent.futures import ThreadPoolExecutor

from .. import build
from ..factory import run_gendrv, NCPU
from ..gen_schema import gen_schema
from ..gen_query import gen_document
from ..gen_edits import edits
from ..model import render_document
from ..cases import render_schema
from .c02 import run_cli, DEADLOCK_RC

RULE = ("flag combinations sampled over -I / -O derives, -d {allow, warn, deny, invalid value}, -m {pub, private, crate, absent}, -p module, "
        "--fragments-other-variant, --external-enums (0-2 names), --selected-operation {an existing operation, absent}, -o DIR / none, "
        "--no-formatting / rustfmt x clean (schema, document) pairs incl. multi-operation documents, query file names with several "
        "dots, query paths that are symbolic links, a 3,000-field operation whose module exceeds every pipe buffer (formatted and not), and destinations already holding a longer stale output. The file must be at <query file stem>.rs in DIR (or beside the query) and equal the header + library tokens for the "
        "corresponding options (piped through the same rustfmt when formatting). Failure clause: invalidating edits (C06 catalogue), "
        "missing / unparsable schema and query files, -p values that are not a module path, with a pre-seeded sentinel and a pre-existing output file that must survive "
        "unchanged. Non-trivial = invocation with >= 3 flags or a failure case; distinct by (arguments, document)")

HEADER = "#![allow(clippy::all, warnings)]"
FLOOR = {"invocations": 50, "success-compared": 30, "formatted-compared": 10, "unformatted-compared": 10, "failure-cases": 15, "flag:-o": 10, "flag:--selected-operation": 5, "flag:-m": 10}


def sha(path):
    with open(path, "rb") as f:
        return hashlib.sha256(f.read()).hexdigest()


def rustfmt(text):
    p = subprocess.run(["rustfmt"], input=text.encode(), capture_output=True)
    if p.returncode != 0:
        return None
    return p.stdout.decode()


def main(run):
    run.rule = RULE
    run.assumptions = ["`rustfmt` on PATH is the binary the CLI spawns; its output on the expected text is the reference for formatted runs",
                       "library options for a flag are those documented for it: -m private = inherited visibility, -m crate = pub(crate), invalid -d value = default strategy"]
    rng = run.rng
    root = os.path.join(build.BUILD, "work", "C19-%d" % run.seed)
    shutil.rmtree(root, ignore_errors=True)
    os.makedirs(root)
    build.build_cli()
    jobs = []
    n = run.size(48, 1600)
    schema = None
    for i in range(n):
        if i % 3 == 0:
            schema = gen_schema(rng, deprecations=0.2)
            fmt, stext, ext = render_schema(schema, rng)
        doc, feats = gen_document(schema, rng)
        d = os.path.join(root, "j%d" % i)
        os.makedirs(d)
        sp = os.path.join(d, "schema." + ext)
        open(sp, "w").write(stext)
        qname = rng.choice(["query.graphql", "my_query.graphql", "q.one.graphql", "Query File.graphql", "noext", "q.gql"])
        qp = os.path.join(d, qname)
        text = render_document(doc)
        symlinked = rng.random() < 0.2
        if symlinked:
            # the query path given on the command line is a symbolic link to a file with another name in another directory
            os.makedirs(os.path.join(d, "shared"))
            real = os.path.join(d, "shared", "shared_ops.graphql")
            open(real, "w").write(text)
            os.symlink(real, qp)
        else:
            open(qp, "w").write(text)
        args, opts, flags = [], {"mode": "cli"}, []

        def flag(name):
            flags.append(name)
        if rng.random() < 0.5:
            v = rng.choice(["Debug", "Clone,PartialEq", "Deserialize, Debug"])
            args += [rng.choice(["-I", "--variables-derives"]), v]
            opts["variables_derives"] = v
            flag("-I")
        if rng.random() < 0.5:
            v = rng.choice(["Debug", "Serialize,Debug", "Clone , PartialEq"])
            args += [rng.choice(["-O", "--response-derives"]), v]
            opts["response_derives"] = v
            flag("-O")
        if rng.random() < 0.6:
            v = rng.choice(["allow", "warn", "deny", "bogus"])
            args += ["-d", v]
            if v != "bogus":
                opts["deprecation"] = v
            flag("-d")
        r = rng.random()
        if r < 0.6:
            v = rng.choice(["pub", "private", "crate"])
            args += ["-m", v]
            opts["visibility"] = {"pub": "pub", "private": "inherited", "crate": "pub(crate)"}[v]
            flag("-m")
        else:
            opts["visibility"] = "pub"
        if rng.random() < 0.4:
            v = rng.choice(["crate::scalars", "super::my_scalars", "::ext::scalars", "self::scalars", "crate::a::b::c::scalars"])
            args += ["-p", v]
            opts["custom_scalars_module"] = v
            flag("-p")
        if rng.random() < 0.4:
            args += ["--fragments-other-variant"]
            opts["other_variant"] = True
            flag("--fragments-other-variant")
        sel = None
        if rng.random() < 0.35:
            sel = rng.choice(doc["operations"])["name"]
            args += ["--selected-operation", sel]
            opts["operation_name"] = sel
            flag("--selected-operation")
        outdir = None
        if rng.random() < 0.6:
            outdir = os.path.join(d, rng.choice(["out", "out dir", "nested/out"]))
            os.makedirs(outdir)
            open(os.path.join(outdir, "SENTINEL"), "w").write("keep me")
            args += [rng.choice(["-o", "--output-directory"]), outdir]
            flag("-o")
        nofmt = rng.random() < 0.5
        if nofmt:
            args += ["--no-formatting"]
        ee = []
        if rng.random() < 0.35 and schema.of_kind("enum"):
            ee = sorted(rng.sample(schema.of_kind("enum"), rng.randint(1, min(2, len(schema.of_kind("enum"))))))
            opts["extern_enums"] = ee
            flag("--external-enums")
        argv = ["generate", "--schema-path", sp, qp] + args + (["--external-enums"] + ee if ee else [])
        stem = os.path.splitext(qname)[0] if "." in qname else qname
        # `<query file stem>.rs`: Path::with_extension replaces the last extension only
        expected_path = os.path.join(outdir if outdir else d, (qname.rsplit(".", 1)[0] if "." in qname else qname) + ".rs")
        stale = rng.random() < 0.3
        if stale:
            # an output of an earlier, larger generation is already there: it must be replaced, not patched
            open(expected_path, "w").write("// stale output\n" + "pub struct Old;\n" * 4000)
            flag("stale-output")
        if symlinked:
            flag("symlinked-query")
        jobs.append({"id": "j%d" % i, "kind": "success", "argv": argv, "dir": d, "schema_path": sp, "query_path": qp, "opts": opts, "nofmt": nofmt,
                     "expected_path": expected_path, "flags": flags, "doc_text": text, "schema_text": stext, "outdir": outdir, "stale": stale})
    # a large operation: the module is several hundred KB, far more than a pipe holds - the formatter's output has to be
    # drained while it runs (process-tree deadlock monitor in run_cli)
    for bi, nofmt in enumerate((True, False)):
        d = os.path.join(root, "big%d" % bi)
        os.makedirs(os.path.join(d, "out"))
        sp = os.path.join(d, "schema.graphql")
        open(sp, "w").write("type Query { v: Int s: String }\n")
        qp = os.path.join(d, "big_operation.graphql")
        text = "query Big {\n" + "".join("  a%d: %s\n" % (k, "v" if k % 2 else "s") for k in range(run.size(3000, 6000))) + "}\n"
        open(qp, "w").write(text)
        argv = ["generate", "--schema-path", sp, qp, "-o", os.path.join(d, "out")] + (["--no-formatting"] if nofmt else [])
        jobs.append({"id": "big%d" % bi, "kind": "success", "argv": argv, "dir": d, "schema_path": sp, "query_path": qp, "opts": {"mode": "cli", "visibility": "pub"}, "nofmt": nofmt,
                     "expected_path": os.path.join(d, "out", "big_operation.rs"), "flags": ["-o", "large-module"] + (["--no-formatting"] if nofmt else []),
                     "doc_text": text[:400] + "...", "schema_text": "type Query { v: Int s: String }\n", "outdir": os.path.join(d, "out"), "stale": False})
    # failure clause
    fschema = gen_schema(rng)
    ffmt, fstext, fext = render_schema(fschema, rng, "sdl")
    fdoc, _ = gen_document(fschema, rng)
    bad_docs = [(rule + ": " + label, text) for rule, label, text, m in edits(fschema, fdoc, rng, max_per_rule=run.size(3, 12)) if not (rule == "E3" and m.get("field_kind") == "object")]
    bad_docs += [("unparsable query", "query Q { x "), ("empty query file", "")]
    fi = 0
    for label, text in bad_docs:
        d = os.path.join(root, "f%d" % fi)
        os.makedirs(os.path.join(d, "out"))
        sp = os.path.join(d, "schema." + fext)
        open(sp, "w").write(fstext)
        qp = os.path.join(d, "bad.graphql")
        open(qp, "w").write(text)
        pre = rng.random() < 0.5
        outdir = os.path.join(d, "out") if rng.random() < 0.6 else None
        target = os.path.join(outdir if outdir else d, "bad.rs")
        if pre:
            open(target, "w").write("// previous output\n")
        open(os.path.join(d, "out", "SENTINEL"), "w").write("keep me")
        argv = ["generate", "--schema-path", sp, qp] + (["-o", outdir] if outdir else []) + (["--no-formatting"] if rng.random() < 0.5 else [])
        jobs.append({"id": "f%d" % fi, "kind": "failure", "argv": argv, "dir": d, "label": label, "target": target, "pre": pre, "doc_text": text, "schema_text": fstext,
                     "flags": ["failure"], "outdir": outdir})
        fi += 1
    for label, mk in [("missing schema file", lambda d: ("missing.graphql", None, "query Q { __typename }")),
                      ("missing query file", lambda d: ("schema.graphql", fstext, None)),
                      ("unparsable schema", lambda d: ("schema.graphql", "type Query { x: ", "query Q { x }")),
                      ("unparsable json schema", lambda d: ("schema.json", "{ nope", "query Q { x }")),
                      ("unsupported schema extension", lambda d: ("schema.txt", fstext, "query Q { __typename }")),
                      # ISO-8859-1 bytes in a comment / a description: the library cannot load such a file, neither may the CLI
                      ("query file that is not UTF-8", lambda d: ("schema.graphql", fstext, b"# caf\xe9 au lait\nquery Q { __typename }\n")),
                      ("schema file that is not UTF-8", lambda d: ("schema.graphql", b"# sch\xe9ma\n" + fstext.encode("utf-8"), "query Q { __typename }"))]:
        d = os.path.join(root, "f%d" % fi)
        os.makedirs(os.path.join(d, "out"))
        sname, st, qt = mk(d)
        sp = os.path.join(d, sname)
        if st is not None:
            open(sp, "wb").write(st if isinstance(st, bytes) else st.encode("utf-8"))
        qp = os.path.join(d, "bad.graphql")
        if qt is not None:
            open(qp, "wb").write(qt if isinstance(qt, bytes) else qt.encode("utf-8"))
        target = os.path.join(d, "out", "bad.rs")
        open(target, "w").write("// previous output\n")
        open(os.path.join(d, "out", "SENTINEL"), "w").write("keep me")
        jobs.append({"id": "f%d" % fi, "kind": "failure", "argv": ["generate", "--schema-path", sp, qp, "-o", os.path.join(d, "out")], "dir": d, "label": label,
                     "target": target, "pre": True, "doc_text": qt if not isinstance(qt, bytes) else qt.decode("latin1"),
                     "schema_text": st if not isinstance(st, bytes) else st.decode("latin1"), "flags": ["failure"], "outdir": os.path.join(d, "out")})
        fi += 1
    # flag values the CLI cannot turn into the library option: a valid (schema, query) pair, but the command must fail
    vdoc_text = "query Q { __typename }\n"
    for label, extra in [("-p with a trailing `::`", ["-p", "crate::gql::scalars::"]), ("-p with a single colon", ["-p", "crate:gql::scalars"]),
                         ("-p with dots", ["-p", "crate.gql.scalars"]), ("-p with slashes", ["-p", "src/gql/scalars"]), ("-p empty", ["-p", ""]),
                         ("-p with blanks inside a segment", ["-p", "crate::my scalars"])]:
        d = os.path.join(root, "f%d" % fi)
        os.makedirs(os.path.join(d, "out"))
        sp = os.path.join(d, "schema." + fext)
        open(sp, "w").write(fstext)
        qp = os.path.join(d, "bad.graphql")
        open(qp, "w").write(vdoc_text)
        pre = fi % 2 == 0
        target = os.path.join(d, "out", "bad.rs")
        if pre:
            open(target, "w").write("// previous output\n")
        open(os.path.join(d, "out", "SENTINEL"), "w").write("keep me")
        jobs.append({"id": "f%d" % fi, "kind": "failure", "argv": ["generate", "--schema-path", sp, qp, "-o", os.path.join(d, "out"), "--no-formatting"] + extra, "dir": d,
                     "label": "unusable flag value: " + label, "target": target, "pre": pre, "doc_text": vdoc_text, "schema_text": fstext, "flags": ["failure", "bad-flag-value"],
                     "outdir": os.path.join(d, "out")})
        fi += 1

    # a module the library generates without complaint but that is not valid Rust (an enum type literally named `type`): with
    # --no-formatting the file is the library's text as always; with formatting the formatter cannot do its job - the command
    # either fails without touching anything, or delivers the library's text unformatted. An empty or partial file with exit 0
    # is neither.
    for bi, nofmt in enumerate((True, False)):
        d = os.path.join(root, "unfmt%d" % bi)
        os.makedirs(os.path.join(d, "out"))
        sp = os.path.join(d, "schema.graphql")
        stext_u = "enum type { A B }\ntype Query { t: type n: Int }\n"
        open(sp, "w").write(stext_u)
        qp = os.path.join(d, "kw_enum.graphql")
        open(qp, "w").write("query KwEnum { t n }\n")
        target = os.path.join(d, "out", "kw_enum.rs")
        if not nofmt:
            open(target, "w").write("// previous output\n")
        argv = ["generate", "--schema-path", sp, qp, "-o", os.path.join(d, "out")] + (["--no-formatting"] if nofmt else [])
        jobs.append({"id": "unfmt%d" % bi, "kind": "success" if nofmt else "unformattable", "argv": argv, "dir": d, "schema_path": sp, "query_path": qp, "opts": {"mode": "cli", "visibility": "pub"},
                     "nofmt": nofmt, "expected_path": target, "flags": ["-o", "unformattable-module"] + (["--no-formatting"] if nofmt else []), "doc_text": "query KwEnum { t n }\n",
                     "schema_text": stext_u, "outdir": os.path.join(d, "out"), "stale": False, "label": "module that rustfmt cannot parse"})

    # a document without operations (fragments only): the library succeeds with nothing to emit, so the file is the header
    # alone - and a stale file from an earlier run must be replaced by it
    for bi, (nofmt, stale) in enumerate(((True, False), (False, False), (True, True))):
        d = os.path.join(root, "fragonly%d" % bi)
        os.makedirs(os.path.join(d, "out"))
        sp = os.path.join(d, "schema.graphql")
        stext_f = "type Query { a: A n: Int }\ntype A { id: ID name: String }\n"
        open(sp, "w").write(stext_f)
        qp = os.path.join(d, "only_fragments.graphql")
        qtext_f = "fragment AParts on A { id name }\nfragment Root on Query { n a { ...AParts } }\n"
        open(qp, "w").write(qtext_f)
        target = os.path.join(d, "out", "only_fragments.rs")
        if stale:
            open(target, "w").write("// stale output of an earlier run\npub struct OldOperation;\npub mod old_operation { }\n")
        argv = ["generate", "--schema-path", sp, qp, "-o", os.path.join(d, "out")] + (["--no-formatting"] if nofmt else [])
        jobs.append({"id": "fragonly%d" % bi, "kind": "success", "argv": argv, "dir": d, "schema_path": sp, "query_path": qp, "opts": {"mode": "cli", "visibility": "pub"},
                     "nofmt": nofmt, "expected_path": target, "flags": ["-o", "no-operations"] + (["--no-formatting"] if nofmt else []) + (["stale-output"] if stale else []),
                     "doc_text": qtext_f, "schema_text": stext_f, "outdir": os.path.join(d, "out"), "stale": stale})

    # every deprecation strategy spelled out, on an operation that selects deprecated fields (the flag is the library option,
    # nothing more: same header, same modules)
    for bi, (strategy, nofmt) in enumerate((("warn", True), ("warn", False), ("allow", True), ("deny", True), ("WARN", True))):
        d = os.path.join(root, "depr%d" % bi)
        os.makedirs(os.path.join(d, "out"))
        sp = os.path.join(d, "schema.graphql")
        stext_d = "type Query { a: A old: Int @deprecated(reason: \"use a\") }\ntype A { id: ID name: String @deprecated legacy: [Int!]! @deprecated(reason: \"gone\") }\n"
        open(sp, "w").write(stext_d)
        qp = os.path.join(d, "with_deprecated.graphql")
        qtext_d = "query WithDeprecated { old a { id name legacy } }\nquery Without { a { id } }\n"
        open(qp, "w").write(qtext_d)
        argv = ["generate", "--schema-path", sp, qp, "-o", os.path.join(d, "out"), "-d", strategy] + (["--no-formatting"] if nofmt else [])
        jobs.append({"id": "depr%d" % bi, "kind": "success", "argv": argv, "dir": d, "schema_path": sp, "query_path": qp,
                     "opts": {"mode": "cli", "visibility": "pub", "deprecation": strategy.lower()}, "nofmt": nofmt, "expected_path": os.path.join(d, "out", "with_deprecated.rs"),
                     "flags": ["-o", "-d", "deprecated-fields-selected"] + (["--no-formatting"] if nofmt else []), "doc_text": qtext_d, "schema_text": stext_d,
                     "outdir": os.path.join(d, "out"), "stale": False})

    # a write fault on the output file itself (it is a symbolic link to /dev/full: every write fails with ENOSPC): the command
    # must not report success for a file it could not write, however small the module is
    if os.path.exists("/dev/full"):
        for bi, nofmt in enumerate((True, False)):
            d = os.path.join(root, "wfault%d" % bi)
            os.makedirs(os.path.join(d, "out"))
            sp = os.path.join(d, "schema.graphql")
            open(sp, "w").write("type Query { n: Int }\n")
            qp = os.path.join(d, "small.graphql")
            open(qp, "w").write("query Small { n }\n")
            os.symlink("/dev/full", os.path.join(d, "out", "small.rs"))
            jobs.append({"id": "wfault%d" % bi, "kind": "write-fault", "argv": ["generate", "--schema-path", sp, qp, "-o", os.path.join(d, "out")] + (["--no-formatting"] if nofmt else []),
                         "dir": d, "label": "output file cannot be written (ENOSPC)", "flags": ["-o", "write-fault"], "doc_text": "query Small { n }\n", "schema_text": "type Query { n: Int }\n",
                         "outdir": os.path.join(d, "out")})

    def snapshot(d):
        out = {}
        for base, _, files in os.walk(d):
            for f in files:
                p = os.path.join(base, f)
                if not os.path.isfile(p):
                    continue        # (a device behind a symbolic link: nothing to hash)
                out[os.path.relpath(p, d)] = sha(p)
        return out

    def execute(job):
        before = snapshot(job["dir"])
        rc, so, se = run_cli(job["argv"], cwd=job["dir"])
        after = snapshot(job["dir"])
        return job, rc, so, se, before, after
    with ThreadPoolExecutor(NCPU) as ex:
        results = list(ex.map(execute, jobs))
    # library reference for the successful ones
    reqs = [{"id": j["id"], "schema_path": j["schema_path"], "query_path": j["query_path"], "options": j["opts"], "want": ["tokens"]} for j in jobs if j["kind"] in ("success", "unformattable")]
    lib = {r["id"]: r for r in run_gendrv(reqs)}
    for job, rc, so, se, before, after in results:
        run.evaluated()
        run.count("invocations")
        for f in job["flags"]:
            run.count("flag:" + f)
        case = {"id": job["id"], "corpus": "clean", "argv": [a.replace(job["dir"], "$DIR") for a in job["argv"]], "doc_text": job.get("doc_text"), "schema_text": job.get("schema_text"),
                "kind": job["kind"], "label": job.get("label")}
        new = sorted(set(after) - set(before))
        changed = sorted(k for k in before if k in after and before[k] != after[k])
        gone = sorted(set(before) - set(after))
        sym = None
        if job["kind"] == "success":
            l = lib[job["id"]]
            exp_rel = os.path.relpath(job["expected_path"], job["dir"])
            if l["outcome"] != "ok":
                # the library rejects the pair (C02's business); then the CLI must fail too
                if rc == 0:
                    sym = "library rejects the inputs (%s) but the CLI exited 0" % (l.get("message") or "")[:100]
                else:
                    run.count("both-rejected")
            elif rc == DEADLOCK_RC:
                sym = "the command never terminates: %s" % se[:200].strip()
            elif rc != 0:
                sym = "CLI exit %s where the library succeeds: %s" % (rc, se[-200:])
            elif (new, changed) != (([], [exp_rel]) if job.get("stale") else ([exp_rel], [])) or gone:
                sym = "files written %s (changed %s, removed %s), expected exactly %s" % (new, changed, gone, exp_rel)
            else:
                got = open(job["expected_path"], encoding="utf-8").read()
                want = "%s\n%s" % (HEADER, l["tokens"])
                if job["nofmt"]:
                    run.count("unformatted-compared")
                    if got != want:
                        i = next((i for i, (x, y) in enumerate(zip(got, want)) if x != y), min(len(got), len(want)))
                        sym = "file differs from header + library tokens near ...%r | %r" % (got[max(0, i - 50):i + 50], want[max(0, i - 50):i + 50])
                else:
                    run.count("formatted-compared")
                    ref = rustfmt(want)
                    if ref is None:
                        run.inconclusive_case(job["id"], "rustfmt failed on the reference text")
                        continue
                    if got != ref:
                        sym = "formatted file differs from rustfmt(header + library tokens)"
                run.count("success-compared")
        elif job["kind"] == "write-fault":
            run.count("write-fault-cases")
            if rc == DEADLOCK_RC:
                sym = "the command never terminates: %s" % se[:200].strip()
            elif rc == 0:
                sym = "exit 0 although every write to the output file fails (ENOSPC): the module was not delivered"
        elif job["kind"] == "unformattable":
            l = lib[job["id"]]
            run.count("unformattable-module-cases")
            exp_rel = os.path.relpath(job["expected_path"], job["dir"])
            if l["outcome"] != "ok" or rustfmt("%s\n%s" % (HEADER, l["tokens"])) is not None:
                run.inconclusive_case(job["id"], "the module meant to be unformattable is not (library: %s)" % l["outcome"])
                continue
            if rc == DEADLOCK_RC:
                sym = "the command never terminates: %s" % se[:200].strip()
            elif rc != 0:
                if new or changed or gone:
                    sym = "the formatter failed (exit %s) but files were written %s / changed %s / removed %s" % (rc, new, changed, gone)
            else:
                got = open(job["expected_path"], encoding="utf-8").read() if os.path.exists(job["expected_path"]) else None
                if got != "%s\n%s" % (HEADER, l["tokens"]):
                    sym = "exit 0 although the module cannot be formatted, and the file is not the library's text either (%s bytes: %r)" % (len(got or ""), (got or "")[:60])
        else:
            run.count("failure-cases")
            if rc == 0:
                sym = "exit 0 on a generation error (%s)" % job["label"]
            elif new or changed or gone:
                sym = "generation error (%s) but files written %s / changed %s / removed %s" % (job["label"], new, changed, gone)
        if sym:
            run.violation(case, sym, {"exit": rc, "stderr": se[-400:]})
        else:
            run.held()
            if len(job["flags"]) >= 3 or job["kind"] == "failure":
                run.nontrivial(case["argv"], job.get("doc_text"))
            if run.held_n % 15 == 1:
                run.sample({"argv": case["argv"], "exit": rc, "files_written": new, "kind": job["kind"], "label": job.get("label")}, limit=6)
    shutil.rmtree(root, ignore_errors=True)
    return run.finish(floor=FLOOR if run.tier == "quick" else {k: (v * 15 if k != "failure-cases" else v * 3) for k, v in FLOOR.items()})


def replay(run, rec):
    print("C19 cases depend on generated files: re-run `VERIF_SEED=%d ./check C19 --tier %s`" % (rec.get("seed", 0), rec.get("tier", "quick")))
    return main(run)
