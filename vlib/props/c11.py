"""C11 - Rust keywords and naming conventions never reach the wire or break the build.
Monitor: rustc verdict + wire keys observed through the compiled probe, one tiny case per (name,
position, normalization); oracle: it compiles and the JSON key / string is the exact GraphQL name."""
import json

from .. import cases as C
from ..factory import Factory
from ..model import Schema, T, NN, render_document, render_sdl
from .. import names
from .. import hazards

RULE = ("every strict, reserved and weak keyword of the Rust reference (editions 2015-2021; taken from the reference, not from "
        "graphql-client's table), four spellings of each that turn into the keyword only after snake_casing (`Type`, `TYPE`, `_type`, "
        "`type_`; quick: without normalization / skip variants) and 24 case-style names x name position {response field, alias, variable, input-object field, "
        "@oneOf member, enum value, self-referential (boxed) input-object field} x option state {normalization none, normalization rust, skip_serializing_none (field-like positions)}: one tiny (schema, document) per combination, compiled by rustc "
        "and probed with payloads / assignments whose keys are the exact GraphQL names (alias position: also an alias that differs from its field's own name in case style / underscores only - the alias is the key, the schema name is not accepted for it). quick = a seeded third of the matrix, "
        "thorough = the whole matrix (exhaustive). `true`, `false`, `null` are not legal enum values in GraphQL and are skipped "
        "at that position. Non-trivial = every case; distinct by (name, position, normalization)")

STYLES = ["fooBar", "foo_bar", "FooBar", "FOO_BAR", "_foo", "_Foo", "foo2bar", "a1", "x_1", "foo_", "fooBar_baz", "X", "iOS", "HTTPServer",
          "x", "aB", "AB", "a_b_c", "A_b", "fooID", "id", "ID_", "Type", "r"]
POSITIONS = ["field", "alias", "variable", "input-field", "oneof-member", "enum-value", "recursive-input-field"]
FLOOR = {"cases": 1200, "pos:field": 150, "pos:alias": 150, "pos:variable": 150, "pos:input-field": 150, "pos:oneof-member": 150, "pos:enum-value": 140, "pos:recursive-input-field": 150, "pos:case-twin-field": 30, "keyword-cases": 600, "keyword-after-snake-cases": 1000}


def make(name, pos, rust, cid, rng):
    s = Schema()
    vecs = []
    if pos in ("field", "alias"):
        fname = name if pos == "field" else "plain"
        s.add("Query", {"kind": "object", "implements": [], "fields": [{"name": fname, "type": T("Int"), "args": [], "deprecated": None},
                                                                        {"name": "obj", "type": T("Obj"), "args": [], "deprecated": None}]})
        s.add("Kind", {"kind": "enum", "values": ["ALPHA", "beta"]})
        s.add("Obj", {"kind": "object", "implements": [], "fields": [{"name": fname, "type": T("String"), "args": [], "deprecated": None},
                                                                      {"name": "kind", "type": NN(T("Kind")), "args": [], "deprecated": None},
                                                                      {"name": "okind", "type": T("Kind"), "args": [], "deprecated": None},
                                                                      {"name": "date", "type": T("Date"), "args": [], "deprecated": None},
                                                                      {"name": "oid", "type": T("ID"), "args": [], "deprecated": None},
                                                                      {"name": "inner", "type": T("Obj"), "args": [], "deprecated": None}]})
        s.add("Date", {"kind": "scalar"})
        alias = name if pos == "alias" else None
        sel = [["field", alias, fname, None, None], ["field", None, "obj", None, [["field", alias, fname, None, None]]]]
        payload = {name: 5, "obj": {name: "s"}}
        if pos == "alias":
            # the alias is the JSON key whatever the field's type: enum, custom scalar, ID, object
            sel = [["field", None, "obj", None, [["field", name, "kind", None, None]]],
                   ["field", "o2", "obj", None, [["field", name, "okind", None, None]]],
                   ["field", "o3", "obj", None, [["field", name, "date", None, None]]],
                   ["field", "o4", "obj", None, [["field", name, "oid", None, None]]],
                   ["field", "o5", "obj", None, [["field", name, "inner", None, [["field", name, fname, None, None]]]]],
                   ["field", name, fname, None, None]]
            payload = {"obj": {name: "ALPHA"}, "o2": {name: "beta"}, "o3": {name: "2020"}, "o4": {name: "id1"}, "o5": {name: {name: "s"}}, name: 5}
            # an alias that differs from its field's own name in case style / underscores only (`Type: type`, `userName: user_name`)
            # is still an alias: the alias is the key, the schema name is not accepted in its place (C11-r10m1)
            taken = {f["name"] for f in s.types["Obj"]["fields"]} | {name}
            twin = next((c for c in (names.snake(name), names.camel(name), name.lower(), name.upper(), "_" + name, name + "_")
                         if c and c not in taken and (c[0].isalpha() or c[0] == "_") and not c.startswith("__")), None)
            if twin:
                s.types["Obj"]["fields"].append({"name": twin, "type": T("String"), "args": [], "deprecated": None})
                sel.append(["field", "o6", "obj", None, [["field", name, twin, None, None]]])
                payload["o6"] = {name: "t"}
                vecs.append({"id": "r1", "kind": "resp", "target": "Q", "input": dict(payload, o6={twin: "t"}),
                             "expect": {"ok": True, "reser": dict(payload, o6={name: None})}, "label": "schema-name-in-place-of-near-alias"})
        doc = {"operations": [{"kind": "query", "name": "Q", "vars": [], "sel": sel}], "fragments": []}
        vecs.append({"id": "r0", "kind": "resp", "target": "Q", "input": payload, "expect": {"ok": True, "reser": payload}, "label": "wire-key"})
        # the key spelt as the Rust identifier would be must NOT be accepted in place of the GraphQL name (non-null not used: check via loss)
    elif pos == "variable":
        s.add("Query", {"kind": "object", "implements": [], "fields": [{"name": "x", "type": T("Int"), "args": [], "deprecated": None}]})
        doc = {"operations": [{"kind": "query", "name": "Q", "vars": [{"name": name, "type": T("Int"), "default": None}], "sel": [["field", None, "x", None, None]]}], "fragments": []}
        vecs.append({"id": "v0", "kind": "vars", "target": "Q", "input": {name: 3}, "expect": {"variables": {name: 3}}})
    elif pos in ("input-field", "oneof-member"):
        one = pos == "oneof-member"
        s.add("In", {"kind": "input", "one_of": one, "fields": [[name, T("Int")], ["zz_other", T("String")]]})
        s.add("Query", {"kind": "object", "implements": [], "fields": [{"name": "x", "type": T("Int"), "args": [], "deprecated": None}]})
        doc = {"operations": [{"kind": "query", "name": "Q", "vars": [{"name": "i", "type": T("In"), "default": None}], "sel": [["field", None, "x", None, None]]}], "fragments": []}
        exp = {"i": {name: 3}} if (one or rust == "skip") else {"i": {name: 3, "zz_other": None}}
        vecs.append({"id": "v0", "kind": "vars", "target": "Q", "input": {"i": {name: 3}}, "expect": {"variables": exp}})
    elif pos == "recursive-input-field":
        # the member refers to its own input type: it gets an indirection (Box), and must keep its wire name all the same
        s.add("In", {"kind": "input", "one_of": False, "fields": [[name, T("In")], ["zz_other", T("String")]]})
        s.add("Query", {"kind": "object", "implements": [], "fields": [{"name": "x", "type": T("Int"), "args": [], "deprecated": None}]})
        doc = {"operations": [{"kind": "query", "name": "Q", "vars": [{"name": "i", "type": T("In"), "default": None}], "sel": [["field", None, "x", None, None]]}], "fragments": []}
        if rust == "skip":
            exp = {"i": {name: {"zz_other": "x"}}}
        else:
            exp = {"i": {name: {name: None, "zz_other": "x"}, "zz_other": None}}
        vecs.append({"id": "v0", "kind": "vars", "target": "Q", "input": {"i": {name: {"zz_other": "x"}}}, "expect": {"variables": exp}})
    elif pos == "enum-value":
        s.add("E", {"kind": "enum", "values": [name, "ZZ_OTHER_VALUE"]})
        s.add("Query", {"kind": "object", "implements": [], "fields": [{"name": "e", "type": T("E"), "args": [], "deprecated": None}]})
        doc = {"operations": [{"kind": "query", "name": "Q", "vars": [{"name": "v", "type": T("E"), "default": None}], "sel": [["field", None, "e", None, None]]}], "fragments": []}
        vecs.append({"id": "r0", "kind": "resp", "target": "Q", "input": {"e": name}, "expect": {"ok": True, "reser": {"e": name}}, "label": "wire-string"})
        vecs.append({"id": "v0", "kind": "vars", "target": "Q", "input": {"v": name}, "expect": {"variables": {"v": name}}})
        vecs.append({"id": "e0", "kind": "enum", "target": "@enum", "input": name, "expect": {"known": True}})
    opts = {"normalization": "rust"} if rust is True else ({"skip_none": True} if rust == "skip" else {})
    c = C.make_case(cid, s, doc, rng, options=opts, fmt="sdl" if name not in ("true", "false", "null") else "sdl")
    c["from_string"] = True
    c["vectors"] = vecs
    c["name"], c["position"], c["rust"] = name, pos, rust
    return c


def twin_cases(rng):
    """two fields of one type whose names differ in ASCII case only (`type` / `Type`, `createdAt` / `CreatedAt`, `URL` / `url`):
    GraphQL names are case-sensitive. The document selects the one declared LATER (and, in a second case, the earlier one): the
    wire key must be exactly the selected name, the value must arrive"""
    out = []
    pairs = [("type", "Type"), ("Type", "type"), ("createdAt", "CreatedAt"), ("URL", "url"), ("self", "SELF"), ("id", "ID"), ("fooBar", "foobar"), ("async", "Async")]
    for pi, (first, second) in enumerate(pairs):
        for which, sel_name in (("later", second), ("earlier", first)):
            for kind in ("object", "interface"):
                s = Schema()
                fields = [{"name": first, "type": T("String"), "args": [], "deprecated": None}, {"name": second, "type": T("Int"), "args": [], "deprecated": None}]
                if kind == "interface":
                    s.add("Holder", {"kind": "interface", "fields": [dict(f) for f in fields]})
                    s.add("Impl", {"kind": "object", "implements": ["Holder"], "fields": [dict(f) for f in fields]})
                else:
                    s.add("Holder", {"kind": "object", "implements": [], "fields": fields})
                s.add("Query", {"kind": "object", "implements": [], "fields": [{"name": "h", "type": T("Holder"), "args": [], "deprecated": None}] + [dict(f) for f in fields]})
                val = 7 if sel_name == second else "seven"
                sub = ([["typename"]] if kind == "interface" else []) + [["field", None, sel_name, None, None]]
                doc = {"operations": [{"kind": "query", "name": "Q", "vars": [], "sel": [["field", None, "h", None, sub], ["field", None, sel_name, None, None]]}], "fragments": []}
                payload = {"h": dict({"__typename": "Impl"} if kind == "interface" else {}, **{sel_name: val}), sel_name: val}
                c = C.make_case("tw%d%s%s" % (pi, which[0], kind[0]), s, doc, rng, options={}, fmt="sdl" if pi % 2 == 0 else "json")
                c["from_string"] = True
                c["vectors"] = [{"id": "r0", "kind": "resp", "target": "Q", "input": payload, "expect": {"ok": True, "reser": payload}, "label": "wire-key"}]
                c["name"], c["position"], c["rust"] = "%s (next to %s, %s declared)" % (sel_name, first if sel_name == second else second, which), "case-twin-field", False
                out.append(c)
    return out


def derived(k):
    """spellings that only become the keyword after snake_casing (heck drops the underscores and the case)"""
    return [k[:1].upper() + k[1:], k.upper(), "_" + k, k + "_"]


def matrix(full=True):
    out = []
    for k in names.KEYWORDS:
        for n in derived(k):
            if n in names.KEYWORDS or n in STYLES:
                continue
            for pos in POSITIONS:
                out.append((n, pos, False))
                if full:
                    out.append((n, pos, True))
                    if pos in ("field", "alias", "variable", "input-field", "recursive-input-field"):
                        out.append((n, pos, "skip"))
    for n in names.KEYWORDS + STYLES:
        for pos in POSITIONS:
            if pos == "enum-value" and n in ("true", "false", "null"):
                continue
            for rust in (False, True):
                out.append((n, pos, rust))
            if pos in ("field", "alias", "variable", "input-field", "recursive-input-field"):
                out.append((n, pos, "skip"))     # skip_serializing_none adds an attribute next to the rename
    return out


def execute(run, cases, tag="b0"):
    fac = Factory("%s-%s-%d" % (run.prop, tag, run.seed))
    gen, verdict, obs = fac.run(cases)
    for c in cases:
        cid = c["id"]
        g = gen[cid]
        run.evaluated()
        run.count("cases")
        run.count("pos:" + c.get("position", "?"))
        if c.get("name") in names.KEYWORDS:
            run.count("keyword-cases")
        elif names.snake(c.get("name") or "") in names.KEYWORDS:
            run.count("keyword-after-snake-cases")
        label = "%s at %s (%s)" % (c.get("name"), c.get("position"), {True: "normalization rust", "skip": "skip_serializing_none"}.get(c.get("rust"), "normalization none"))
        failed = None
        if g["outcome"] != "ok":
            failed = "generation-%s for %s: %s" % (g["outcome"], label, (g.get("message") or "")[:160])
        else:
            v = verdict.get(cid)
            if v == "inconclusive":
                run.inconclusive_case(cid, "build failed without attribution %s" % (fac.unattributed[:1],))
                continue
            if v != "accepted":
                failed = "rustc %s for %s: %s" % (v.get("code"), label, v.get("message"))
            else:
                o = obs.get(cid)
                if o is None or o.get("signal") or o.get("exit") != 0:
                    run.inconclusive_case(cid, "probe exit=%s signal=%s" % (o and o.get("exit"), o and o.get("signal")))
                    continue
                for vec in c["vectors"]:
                    ob = o["obs"].get(vec["id"])
                    sym = None
                    if ob is None or "no_such_probe" in ob:
                        sym = "no-observation %s" % (ob,)
                    elif vec["kind"] == "resp":
                        sym = C.judge_resp(vec, ob)
                    elif vec["kind"] == "vars":
                        if not ob.get("ok"):
                            sym = "assignment keyed by the GraphQL name not accepted: %s" % ob.get("err")
                        elif (ob.get("body") or {}).get("variables") != vec["expect"]["variables"]:
                            sym = "wire form %s, expected %s" % (json.dumps((ob.get("body") or {}).get("variables")), json.dumps(vec["expect"]["variables"]))
                    elif vec["kind"] == "enum":
                        if not ob.get("ok") or ob.get("reser") != vec["input"] or str(ob.get("debug", "")).startswith("Other("):
                            sym = "enum value: %s" % json.dumps(ob)[:120]
                    if sym:
                        failed = "wire mismatch for %s: %s" % (label, sym)
                        break
        if failed:
            run.violation(c, failed)
        else:
            run.held()
            if run.held_n % 90 == 1:
                run.sample({"name": c.get("name"), "position": c.get("position"), "normalization": "rust" if c.get("rust") else "none",
                            "document": c["doc_text"], "schema": c["schema_text"], "vector": c["vectors"][0]["input"]}, limit=6)
        if c["corpus"] != "clean":
            run.witness_result(c["corpus"].split(":")[1], bool(failed))
        run.nontrivial(c.get("name"), c.get("position"), c.get("rust"))
    run.extra.setdefault("timing", []).append(fac.timing)
    fac.cleanup()


def main(run):
    run.rule = RULE
    run.assumptions = ["keyword list: Rust reference, keywords chapter (strict, reserved, weak `union`), editions 2015-2021 + `gen` (2024 reserved)",
                       "each case isolates one name at one position so that a rustc failure is attributable to it"]
    m = matrix(full=not run.quick())
    run.exhaustive = True   # the whole matrix compiles in ~20 s on 16 cores: both tiers enumerate it completely
    if not run.quick():
        # thorough adds every name once more with the other schema front-end (JSON) to the matrix
        m = m + [(n, pos, "json") for (n, pos, rust) in m if rust is False]
    cs = []
    for i, (n, pos, rust) in enumerate(m):
        c = make(n, pos, (True if rust is True else ("skip" if rust == "skip" else False)), "c%d" % i, run.rng)
        if rust == "json":
            from ..model import render_json
            c["schema_text"], c["schema_ext"], c["schema_format"] = render_json(Schema(c["schema_model"])), "json", "json"
        cs.append(c)
    cs += twin_cases(run.rng)
    for w in hazards.cases_for(run, "C11"):
        cs.append(w)
    execute(run, cs)
    run.extra["matrix_size"] = len(matrix())
    return run.finish(floor=FLOOR)


def replay(run, rec):
    execute(run, [rec["case"]], tag="replay")
    return run.finish()
