"""C03 - generated response types reject what the schema forbids.
Monitor: `resp` trace on every single-point corruption of conforming payloads; oracle: must be
Err (or the Unknown variant for an unknown __typename when the other-variant option is on)."""
from .. import cases as C
from ..gen_schema import gen_schema
from ..gen_query import gen_document
from . import c01

RULE = ("same case generator as C01; for the first conforming payloads of each operation every corruption of the catalogue is "
        "applied at every position, one at a time: null-out / delete at non-null positions, null element in a list of non-null, "
        "list -> first element, list -> {}, scalar kind swaps (Int<-\"s\",1.5,true; Float<-\"s\",true; String<-1,true; "
        "Boolean<-1,\"true\"; ID<-1.5,true,[],{}; enum<-1,true), object<-5 / [], __typename deleted / non-string / unknown at "
        "abstract positions; fragments_other_variant off and on; every fifth case is delivered through the derive macro (options "
        "as attribute items in a per-case order) instead of the library call. Non-trivial = case with at least one corruption at depth >= 2 "
        "or at an abstract position; distinct by (schema, document, options)")

FLOOR = {"corruptions": 2000, "unknown-typename": 10, "null@": 100, "kind:": 100, "derive-delivery": 10}


def gen_cases(run, n, prefix="c"):
    rng = run.rng
    out = []
    schema = None
    for i in range(n):
        if i % 3 == 0:
            schema = gen_schema(rng, odd_type_names=(i % 6 == 0), narrowing=0.35 if i % 2 else 0.0, unknown_member=(i % 12 == 6 and i % 15 != 12))
        doc, feats = gen_document(schema, rng)
        other = (i % 2 == 1)
        if "Unknown" in schema.types and i % 5 != 4:
            other = False      # a member type literally called `Unknown`, option off: an unknown __typename must still be an error
            run.count("member-type-named-Unknown")
        opts = {"other_variant": other, "skip_none": rng.random() < 0.2}
        if rng.random() < 0.3:
            opts["normalization"] = "rust"
        if i % 5 == 4:
            # delivered through the derive macro: the option this property depends on is on, next to a bare flag
            opts["skip_none"] = True
            opts["other_variant"] = other = True
        c = C.make_case("%s%d" % (prefix, i), schema, doc, rng, options=opts, features=feats, fmt="sdl-extended" if i % 8 == 5 else None)
        if i % 5 == 4:
            c["attr_focus"] = "fragments_other_variant"
            c["attr_mode"] = i // 5
            c["delivery"] = "derive"      # the options arrive through the derive attribute (items in a per-case order)
            run.count("derive-delivery")
        vecs, stats = C.resp_vectors(c, rng, n_payloads=4, n_corrupt_bases=run.size(2, 4), other_variant=other)
        c["vectors"] = vecs
        c["payload_stats"] = stats
        for v in vecs:
            if v["label"] != "conforming":
                run.count("corruptions")
                lab = v["label"]
                for key in ("null@", "del@", "kind:", "unlist@", "list<-obj@", "null-elem@", "obj<-", "del-typename", "unknown-typename", "typename<-int"):
                    if lab.startswith(key):
                        run.count(key)
                if lab.count("/") >= 2 or "[" in lab:
                    c.setdefault("deep", True)
        out.append(c)
    return out


def main(run):
    run.rule = RULE
    run.assumptions = ["corruption catalogue of vlib/shape.py (DESIGN.md C03); Float<-integer, anything at custom scalars and "
                       "null/absent at nullable positions are not corruptions and are never generated",
                       "rustc / serde / serde_json versions as pinned by /repo/Cargo.lock"]
    total = run.size(72, 1440)
    batch = 288
    done = 0
    bi = 0
    while done < total:
        n = min(batch, total - done)
        cs = gen_cases(run, n, prefix="c%d_" % bi)
        c01.execute(run, cs, tag="b%d" % bi)
        done += n
        bi += 1
    return run.finish(floor=FLOOR if run.tier == "quick" else {k: v * 8 for k, v in FLOOR.items()})


def replay(run, rec):
    c01.execute(run, [rec["case"]], tag="replay")
    return run.finish()
