"""C20 - `introspect-schema` sends the right request and never corrupts its output.
Monitor: the request log of a loopback mock endpoint with scripted behaviours, plus exit status,
stdout and the hash of the --output file of the graphql-client binary built from the working
tree; oracle: exactly one POST with the specified body / headers, output JSON-equal to what the
server sent (and generating the same code as the server's SDL), and on any failure a non-zero
exit with the pre-existing output file untouched."""
import hashlib
import json
import os
import re
import shutil
from concurrent.futures import ThreadPoolExecutor

from .. import build
from ..factory import run_gendrv
from ..gen_schema import gen_schema
from ..gen_query import gen_document
from ..model import render_sdl, render_json, render_document
from ..mockgql import Mock, refused_port
from .c02 import run_cli

LEVEL = "fault_enumeration"

RULE = ("enumerated: server behaviour {200 JSON, 200 JSON padded with whitespace, 200 chunked JSON, 201 JSON, 200 JSON with BOM, 200 garbage, 200 "
        "empty, 3xx without Location / unassigned 3xx / 199 with a JSON body, 200 truncated JSON, 200 JSON followed by garbage / HTML / a second JSON value, complete JSON in an incomplete HTTP message "
        "(short of Content-Length, chunked without terminator), 204 empty, 301 without Location, 400 / 401 / 404 with JSON and text bodies, 500, 503 with JSON body, "
        "connection refused, closed before headers, closed mid-body} x output {stdout, new file, existing file, existing file longer than the reply}; for each cell the "
        "flags {--is-one-of, --specify-by-url} (4 combinations), header sets (odd spacing, colons / tabs / commas / quotes in values, empty values, 3 "
        "headers) and --authorization are cycled so that every value occurs with every behaviour class; plus the refused header "
        "strings (no colon, empty name, blank / tab inside the name) which must fail before any request. Schemas served come from "
        "the random schema generator. Non-trivial = every cell; distinct by (behaviour, output mode, flags, headers, auth)")

GQL_DIR = os.path.join(build.REPO, "graphql_client_cli", "src", "graphql")
FLOOR = {"invocations": 60, "requests-checked": 40, "success-cells": 12, "failure-cells": 30, "existing-file-preserved": 10, "refused-headers": 8, "code-equivalence": 3}

HEADER_SETS = [[], ["X-Name: Value"], ["X-A:1", " X-B : v:1 "], ["X-Tab:\tT ", "X-Empty:", "Accept-Language: fr, en;q=0.5"], ["x-lower: é-latin"],
               # the same header name twice (and once more in another case): every --header must reach the server
               ["X-Feature: alpha", "X-Feature: beta", "x-feature: gamma", "X-Other: 1"],
               # commas, semicolons, equals signs and quotes belong to the value
               ["X-List: a,b,c", "Cookie: a=1; b=\"2,3\"", "X-Comma: ,x,"],
               # whitespace other than blanks and tabs around name and value (a YAML block scalar, `printf '...\n'`, CRLF from a file):
               # "trimmed" means trimmed
               ["X-Token: abc\n", "X-Crlf: v1\r\n", "\nX-Lead: \n v2 \n", "X-Feed:\x0cv3\x0c"],
               # names the client also sets itself: the user's header must still arrive (next to the built-in one or instead of it)
               ["Accept: application/graphql-response+json", "content-type: application/json; charset=utf-8", "User-Agent: my-tool/1.0"]]
BAD_HEADERS = ["X-Name Value", ": Value", "X Name: Value", "X\tName: Value", ":", "   : v",
               # no colon at all, although what is there would make a fine header name
               "X-Api-Key", "Authorization", " XName ", "X-Name=Value"]


def expected_header(h):
    name, _, value = h.partition(":")
    return name.strip(), value.strip()


def behaviours(server_json):
    good = json.dumps(server_json).encode()
    pretty = json.dumps(server_json, indent=2).encode()
    return [
        # (name, mock kwargs, expectation: success | failure | either)
        ("200-json", dict(behaviour="ok", body=good, status=200), "success"),
        ("200-json-padded", dict(behaviour="ok", body=b"\n  " + pretty + b"\n\n", status=200), "success"),
        ("200-json-chunked", dict(behaviour="chunked", body=good, status=200), "success"),
        # a 2xx reply is judged by its body: the media type the server labels it with is not part of the contract
        ("200-json-graphql-response-type", dict(behaviour="ok", body=good, status=200, content_type="application/graphql-response+json; charset=utf-8"), "success"),
        ("200-json-media-type-in-capitals", dict(behaviour="ok", body=good, status=200, content_type="Application/JSON"), "success"),
        ("200-json-labelled-text-plain", dict(behaviour="ok", body=good, status=200, content_type="text/plain"), "success"),
        ("201-json", dict(behaviour="ok", body=good, status=201), "success"),
        ("201-json", dict(behaviour="ok", body=good, status=201), "success"),
        ("200-json-text-plain", dict(behaviour="ok", body=good, status=200, content_type="text/plain"), "success"),
        ("200-json-bom", dict(behaviour="ok", body=b"\xef\xbb\xbf" + good, status=200), "either"),
        # the body is UTF-8 JSON whatever charset the header claims (RFC 8259): the text must arrive unchanged
        ("200-json-charset-latin1", dict(behaviour="ok", body=json.dumps(server_json, ensure_ascii=False).encode("utf-8"), status=200, content_type="application/json; charset=ISO-8859-1"), "success"),
        ("200-json-charset-sjis", dict(behaviour="ok", body=json.dumps(server_json, ensure_ascii=False).encode("utf-8"), status=200, content_type="application/json;charset=Shift_JIS"), "success"),
        ("200-json-charset-utf8", dict(behaviour="ok", body=json.dumps(server_json, ensure_ascii=False).encode("utf-8"), status=200, content_type="application/json; charset=utf-8"), "success"),
        # JSON-shaped, but a string contains bytes that are not UTF-8: not JSON
        ("200-invalid-utf8", dict(behaviour="ok", body=good[:-1].replace(b'"__schema"', b'"__schema"', 1)[:20] + b'' + good[20:].replace(b'"queryType"', b'"x\xff\xfe":1,"queryType"', 1), status=200), "failure"),
        ("200-garbage", dict(behaviour="ok", body=b"<html>not json</html>", status=200, content_type="text/html"), "failure"),
        ("200-empty", dict(behaviour="ok", body=b"", status=200), "failure"),
        ("200-truncated-json", dict(behaviour="ok", body=good[: len(good) // 2], status=200), "failure"),
        # a complete JSON value followed by something else is not a JSON body
        ("200-json-then-garbage", dict(behaviour="ok", body=good + b" trailing}", status=200), "failure"),
        ("200-json-then-html", dict(behaviour="ok", body=good + b"\n<html><body>upstream timed out</body></html>\n", status=200), "failure"),
        ("200-two-json-values", dict(behaviour="ok", body=good + b"\n" + good, status=200), "failure"),
        # the JSON value arrives whole but the HTTP message does not: a transport failure
        ("closed-after-json-short-of-content-length", dict(behaviour="close-after-body-short-of-length", body=good, status=200), "failure"),
        ("chunked-without-terminator", dict(behaviour="chunked-no-terminator", body=good, status=200), "failure"),
        ("204-empty", dict(behaviour="ok", body=b"", status=204), "failure"),
        ("301-no-location", dict(behaviour="ok", body=b"moved", status=301, content_type="text/plain"), "failure"),
        # 3xx replies that the client cannot follow (no Location) or that are not redirects at all, with a well-formed JSON body
        ("300-json", dict(behaviour="ok", body=good, status=300), "failure"),
        ("302-no-location-json", dict(behaviour="ok", body=good, status=302), "failure"),
        ("307-no-location-json", dict(behaviour="ok", body=good, status=307), "failure"),
        ("399-json", dict(behaviour="ok", body=good, status=399), "failure"),
        ("100-range-199-json", dict(behaviour="ok", body=good, status=199), "failure"),
        ("400-json", dict(behaviour="ok", body=b'{"errors":[{"message":"bad"}]}', status=400), "failure"),
        ("401-text", dict(behaviour="ok", body=b"unauthorized", status=401, content_type="text/plain"), "failure"),
        ("404-json", dict(behaviour="ok", body=b'{"message":"nope"}', status=404), "failure"),
        ("404-valid-schema-json", dict(behaviour="ok", body=good, status=404), "failure"),
        ("500-text", dict(behaviour="ok", body=b"boom", status=500, content_type="text/plain"), "failure"),
        ("503-valid-schema-json", dict(behaviour="ok", body=good, status=503), "failure"),
        ("closed-before-headers", dict(behaviour="close-before-headers"), "failure"),
        ("closed-mid-body", dict(behaviour="close-mid-body", body=good, status=200), "failure"),
        ("refused", None, "failure"),
    ]


def sha(p):
    return hashlib.sha256(open(p, "rb").read()).hexdigest()


def docs():
    out = {}
    for fn in os.listdir(GQL_DIR):
        if fn.startswith("introspection_query") and fn.endswith(".graphql"):
            t = open(os.path.join(GQL_DIR, fn), encoding="utf-8").read()
            m = re.search(r"^\s*query\s+(\w+)", t, re.M)
            out[fn] = (t, m.group(1) if m else None)
    return out


def main(run):
    run.rule = RULE
    run.assumptions = ["--no-ssl cannot be exercised: there is no TLS peer in the sandbox (out of reach, not judged)",
                       "a body starting with a UTF-8 BOM is neither required to be accepted nor to be refused (`either`)",
                       "creating a NEW output file on a failed run is not judged by the statement; changing an existing one is",
                       "loopback networking (127.0.0.1) works in the sandbox"]
    rng = run.rng
    root = os.path.join(build.BUILD, "work", "C20-%d" % run.seed)
    shutil.rmtree(root, ignore_errors=True)
    os.makedirs(root)
    build.build_cli()
    qdocs = docs()
    schema = gen_schema(rng, n_input=2, underscore_types=(run.seed % 2 == 0))
    server_json = json.loads(render_json(schema, wrapped=True, builtins="scalars"))
    # non-ASCII text in the reply (descriptions are free text)
    server_json["data"]["__schema"]["types"][0]["description"] = "Beschreibung mit Umlauten äöü, ☃ und 日本語"
    sdl_path = os.path.join(root, "server.graphql")
    open(sdl_path, "w").write(render_sdl(schema))
    doc, _ = gen_document(schema, rng)
    doc_text = render_document(doc)
    cells = []
    bs = behaviours(server_json)
    i = 0
    reps = run.size(1, 12)
    for rep in range(reps):
        for bname, mk, expect in bs:
            for outmode in ("stdout", "new-file", "existing-file", "existing-longer-file"):
                flags = [(False, False), (True, False), (False, True), (True, True)][(i + rep) % 4]
                hs = HEADER_SETS[(i // 2 + rep) % len(HEADER_SETS)]
                auth = [None, "tok123", "tok with space"][(i + rep) % 3]
                cells.append({"id": "c%d" % i, "behaviour": bname, "mock": mk, "expect": expect, "outmode": outmode, "flags": flags, "headers": hs, "auth": auth})
                i += 1
    # a bearer token that cannot be carried in a header (a trailing CR from a CRLF file, an embedded newline): whatever the
    # command does, it does not send the request WITHOUT the credential and then report success
    for ti, tok in enumerate(["tok123\r", "tok\nInjected: 1", "tok\x7f"]):
        cells.append({"id": "a%d" % ti, "behaviour": "200-json", "mock": bs[0][1], "expect": "untransmittable-token", "outmode": "existing-file", "flags": (False, False),
                      "headers": ["X-Ok: 1"], "auth": tok})
    for bi, bh in enumerate(BAD_HEADERS):
        cells.append({"id": "h%d" % bi, "behaviour": "200-json", "mock": bs[0][1], "expect": "refused-header", "outmode": "existing-file", "flags": (False, False),
                      "headers": ["X-Ok: 1", bh], "auth": None})

    def execute(cell):
        d = os.path.join(root, cell["id"])
        os.makedirs(d)
        mock = Mock(**cell["mock"]) if cell["mock"] else None
        url = mock.url if mock else "http://127.0.0.1:%d/graphql" % refused_port()
        argv = ["introspect-schema", url]
        out = None
        before = None
        if cell["outmode"] != "stdout":
            out = os.path.join(d, "out.json")
            argv += ["--output", out]
            if cell["outmode"] == "existing-file":
                open(out, "w").write('{"previous": "schema", "keep": true}\n')
                before = sha(out)
            elif cell["outmode"] == "existing-longer-file":
                # an older, much longer schema file: whatever is written must replace it completely
                open(out, "w").write(json.dumps({"previous": "schema", "padding": ["x" * 100] * 3000}, indent=1) + "\n")
                before = sha(out)
        for h in cell["headers"]:
            argv += ["--header", h]
        if cell["auth"]:
            argv += ["--authorization", cell["auth"]]
        if cell["flags"][0]:
            argv += ["--is-one-of"]
        if cell["flags"][1]:
            argv += ["--specify-by-url"]
        try:
            rc, so, se = run_cli(argv, cwd=d, timeout=90)
            timed_out = False
        except Exception as e:   # subprocess.TimeoutExpired
            rc, so, se, timed_out = None, "", repr(e), True
        log = list(mock.log) if mock else []
        if mock:
            mock.close()
        after = sha(out) if out and os.path.exists(out) else None
        return cell, argv, rc, so, se, log, before, after, out, timed_out
    with ThreadPoolExecutor(8) as ex:
        results = list(ex.map(execute, cells))
    equiv_jobs = []
    for cell, argv, rc, so, se, log, before, after, out, timed_out in results:
        run.evaluated()
        run.count("invocations")
        case = {"id": cell["id"], "corpus": "clean", "behaviour": cell["behaviour"], "outmode": cell["outmode"], "headers": cell["headers"], "auth": cell["auth"],
                "flags": {"is_one_of": cell["flags"][0], "specify_by_url": cell["flags"][1]}, "argv": argv[:1] + ["$URL"] + argv[2:]}
        if timed_out:
            run.inconclusive_case(cell["id"], "CLI exceeded the 90 s watchdog: %s" % se[:100])
            continue
        problems = []
        exp = cell["expect"]
        if exp == "untransmittable-token":
            run.count("untransmittable-tokens")
            reqs = [l for l in log if "method" in l]
            for r in reqs:
                hd = {}
                for k, v in r["headers"]:
                    hd.setdefault(k.lower(), []).append(v)
                if not hd.get("authorization"):
                    problems.append("a request was sent without the bearer credential (token %r)" % cell["auth"])
            if rc == 0 and not reqs:
                problems.append("exit 0 without any request")
            if rc != 0 and before is not None and after != before:
                problems.append("existing output file changed although the command failed")
        elif exp == "refused-header":
            run.count("refused-headers")
            if rc == 0:
                problems.append("header %r accepted (exit 0)" % cell["headers"][-1])
            if log:
                problems.append("a request was sent although header %r must be refused" % cell["headers"][-1])
            if before is not None and after != before:
                problems.append("existing output file changed although the header was refused")
        else:
            # ---- the request
            reqs = [l for l in log if "method" in l]
            if cell["mock"] is not None:
                if len(reqs) != 1 or len(log) != 1:
                    problems.append("expected exactly one request, server saw %d (%s)" % (len(reqs), [l.get("handler_error") or l.get("incomplete") for l in log if "method" not in l]))
                for r in reqs[:1]:
                    run.count("requests-checked")
                    if r["method"] != "POST":
                        problems.append("method %s" % r["method"])
                    if r["path"] != "/graphql":
                        problems.append("path %s" % r["path"])
                    try:
                        body = json.loads(r["body"])
                    except ValueError:
                        body = None
                        problems.append("request body is not JSON: %r" % r["body"][:80])
                    if isinstance(body, dict):
                        if sorted(body.keys()) != ["operationName", "query", "variables"]:
                            problems.append("request body members %s" % sorted(body.keys()))
                        if body.get("variables") is not None:
                            problems.append("variables %r" % (body.get("variables"),))
                        q = body.get("query") or ""
                        which = [fn for fn, (t, opn) in qdocs.items() if t == q]
                        if not which:
                            problems.append("query is not one of the shipped introspection documents")
                        has_one = bool(re.search(r"^\s*isOneOf\s*$", q, re.M))
                        has_url = bool(re.search(r"^\s*specifiedByURL\s*$", q, re.M))
                        if has_one != cell["flags"][0] or has_url != cell["flags"][1]:
                            problems.append("flags is-one-of=%s specify-by-url=%s but the document %s isOneOf and %s specifiedByURL"
                                            % (cell["flags"][0], cell["flags"][1], "selects" if has_one else "lacks", "selects" if has_url else "lacks"))
                        m = re.search(r"^\s*query\s+(\w+)", q, re.M)
                        if not m or body.get("operationName") != m.group(1):
                            problems.append("operationName %r does not name the document's operation %r" % (body.get("operationName"), m and m.group(1)))
                    hdrs = {}
                    for k, v in r["headers"]:
                        hdrs.setdefault(k.lower(), []).append(v)
                    for h in cell["headers"]:
                        n, v = expected_header(h)
                        got = hdrs.get(n.lower())
                        v_wire = v.encode("utf-8").decode("latin1")   # the mock decodes header bytes as latin-1
                        if got is None or v_wire not in got:
                            problems.append("header %r: expected %s: %r, request has %r" % (h, n, v, got))
                    if cell["auth"]:
                        if hdrs.get("authorization") != ["Bearer " + cell["auth"]]:
                            problems.append("authorization header %r, expected Bearer %s" % (hdrs.get("authorization"), cell["auth"]))
                    elif "authorization" in hdrs:
                        problems.append("unexpected authorization header")
                    if not any("application/json" in v for v in hdrs.get("content-type", [])):
                        problems.append("content-type %r" % hdrs.get("content-type"))
            # ---- the outcome
            if exp == "success" or (exp == "either" and rc == 0):
                run.count("success-cells")
                if rc != 0:
                    problems.append("exit %s on a 2xx JSON reply: %s" % (rc, se[-200:]))
                else:
                    text = so if cell["outmode"] == "stdout" else (open(out, encoding="utf-8").read() if out and os.path.exists(out) else None)
                    try:
                        got = json.loads(text) if text is not None else None
                    except ValueError:
                        got = "not-json"
                    if got != server_json:
                        problems.append("output is not JSON-equal to the server's reply (%s)" % (str(got)[:80]))
                    elif out and exp == "success" and len(equiv_jobs) < 10:
                        equiv_jobs.append((cell["id"], out))
            else:
                run.count("failure-cells")
                if rc == 0:
                    problems.append("exit 0 although the server behaved as %s" % cell["behaviour"])
                if cell["outmode"] in ("existing-file", "existing-longer-file"):
                    if after != before:
                        problems.append("existing --output file was changed (now %s) although the run failed on %s" % ("missing" if after is None else "%d bytes" % os.path.getsize(out), cell["behaviour"]))
                    else:
                        run.count("existing-file-preserved")
                elif cell["outmode"] == "new-file" and after is not None:
                    run.count("unjudged:new-file-created-on-failure")
        if problems:
            run.violation(case, problems[0], {"all": problems[:8], "exit": rc, "stderr": se[-300:]})
        else:
            run.held()
            run.nontrivial(cell["behaviour"], cell["outmode"], cell["flags"], cell["headers"], cell["auth"])
            if run.held_n % 9 == 1:
                run.sample({"behaviour": cell["behaviour"], "output": cell["outmode"], "argv": case["argv"], "exit": rc,
                            "request": ({"headers": log[0]["headers"], "body_operationName": json.loads(log[0]["body"]).get("operationName")} if log and "method" in log[0] else None)}, limit=8)
    # the written file generates the same code as the server's SDL
    reqs = []
    for cid, out in equiv_jobs:
        keep = os.path.join(root, "equiv_%s.json" % cid)
        shutil.copy(out, keep)
        reqs.append({"id": cid + ".json", "schema_path": keep, "query_text": doc_text, "options": {"mode": "cli"}, "want": ["tokens"]})
    reqs.append({"id": "sdl", "schema_path": sdl_path, "query_text": doc_text, "options": {"mode": "cli"}, "want": ["tokens"]})
    resps = {r["id"]: r for r in run_gendrv(reqs)}
    for cid, out in equiv_jobs:
        run.evaluated()
        run.count("code-equivalence")
        a, b = resps["sdl"], resps[cid + ".json"]
        if a["outcome"] != b["outcome"] or a.get("tokens") != b.get("tokens"):
            run.violation({"id": cid + ".equiv", "corpus": "clean", "doc_text": doc_text}, "the written schema file does not generate the same code as the server's SDL (%s vs %s)" % (b["outcome"], a["outcome"]))
        else:
            run.held()
    shutil.rmtree(root, ignore_errors=True)
    return run.finish(floor=FLOOR if run.tier == "quick" else {k: (v * 8 if k not in ("refused-headers", "code-equivalence") else v) for k, v in FLOOR.items()})


def replay(run, rec):
    print("C20 cells are enumerated deterministically: re-run `VERIF_SEED=%d ./check C20 --tier %s`" % (rec.get("seed", 0), rec.get("tier", "quick")))
    return main(run)
