"""C16 - ID fields accept strings and integers, canonically, wherever ID appears.
Monitors: (direct) the two helper functions of graphql_client::serde_with called along several
serde routes (text deserializer, Value, struct field, flatten buffering, internally tagged enum);
(compiled) every ID-typed position of generated response types fed every boundary value, with
String / Int fields as negative controls. Oracle: the reference coercion table."""
import copy
import json

from .. import cases as C
from ..factory import Factory
from ..model import Schema, T, L, NN, render_document
from .. import hazards
from .c15 import run_envdrv

RULE = ("values: i64 boundaries, 0, negatives, integers above i64::MAX and above u64::MAX, floats (1.0, 1.5, -0.0, 1e3), "
        "numeric-looking / empty / non-ASCII / long strings, booleans, null, arrays, objects. Direct: both helpers along 6 serde "
        "routes each. Compiled: positions ID and ID! as plain fields, inside spread fragments (flatten), inside interface and "
        "union variants (internally tagged enums), on interfaces' common fields, aliased, under `normalization = rust`, with the "
        "other-variant, skip-none and custom-scalars-module options; String and Int fields as negative controls; absence at nullable IDs. List positions "
        "[ID!]!, [ID], [[ID!]], [ID!] as plain fields, inside a spread fragment and inside a variant, fed whole-list values "
        "(mixed strings / integers, null elements, nulls, absence, non-lists, floats, nested lists). Non-trivial = every (position, value) pair with a non-string value; distinct "
        "by (document, position, value)")

STR_VALUES = ["", "abc", "007", "-0", "1e3", "9223372036854775808", "é☃", "null", "true", " 12 ", "x" * 300, "a\"b\\c\n"]
INT_VALUES = [0, 1, -1, 17, 2147483648, -2147483649, 9223372036854775807, -9223372036854775808]
BAD_VALUES = [9223372036854775808, 18446744073709551615, 123456789012345678901234567890, 1.0, 1.5, -0.0, 1e3, 1e308, True, False, [], ["a"], [1], {}, {"id": "x"}]
FLOOR = {"direct-observations": 400, "compiled-positions": 15, "compiled-vectors": 600, "absent-nullable": 8, "negative-controls": 20, "list-position-vectors": 80}


def reference(v, optional):
    """-> ("ok", string | None) or ("err",)"""
    if v is None:
        return ("ok", None) if optional else ("err",)
    if isinstance(v, bool):
        return ("err",)
    if isinstance(v, str):
        return ("ok", v)
    if isinstance(v, int):
        if -2**63 <= v <= 2**63 - 1:
            return ("ok", str(v))
        return ("err",)
    return ("err",)


def direct(run):
    vals = STR_VALUES + INT_VALUES + BAD_VALUES + [None]
    lines = [{"id": "d%d" % i, "kind": "id", "text": json.dumps(v, ensure_ascii=False)} for i, v in enumerate(vals)]
    # a few textual forms that are the same JSON number: exponent / leading minus zero
    extra = ["1E2", "-0", "0.0", "10000000000000000000000", "  42  "]
    lines += [{"id": "x%d" % i, "kind": "id", "text": t} for i, t in enumerate(extra)]
    vals += [100.0, 0, 0.0, 10000000000000000000000, 42]
    obs, p = run_envdrv(lines)
    for l, v in zip(lines, vals):
        ob = obs.get(l["id"])
        if ob is None:
            run.inconclusive_case(l["id"], "no observation")
            continue
        # "-0" as text is the integer 0 for serde_json? it parses as -0.0 float: judge by what JSON says - python agrees (-0 -> 0 int)
        if l["text"].strip() == "-0":
            continue
        for route, o in ob.items():
            if route == "id" or not isinstance(o, dict):
                continue
            optional = route.startswith("opt_")
            exp = reference(v, optional)
            run.evaluated()
            run.count("direct-observations")
            got = ("ok", o.get("v")) if o.get("ok") else ("err",)
            if got != exp:
                run.violation({"id": "%s/%s" % (l["id"], route), "corpus": "clean", "value_text": l["text"], "route": route},
                              "helper route %s on %s: got %s, reference %s" % (route, l["text"][:40], got, exp), {"observed": o})
            else:
                run.held()
                if not isinstance(v, str):
                    run.nontrivial("direct", route, l["text"])
    run.sample({"direct_value": "9223372036854775807", "observed": obs.get("d%d" % (len(STR_VALUES) + 6))}, limit=6)


LIST_DOC = {"operations": [{"kind": "query", "name": "Q3", "vars": [], "sel": [
    ["field", None, "ids", None, None], ["field", None, "oids", None, None], ["field", None, "idss", None, None],
    ["field", None, "a", None, [["field", None, "name", None, None], ["spread", "LF"]]],
    ["field", None, "node", None, [["typename"], ["inline", "A", [["field", None, "aids", None, None], ["field", "aliased", "oaids", None, None]]]]]]}],
    "fragments": [{"name": "LF", "on": "A", "sel": [["field", None, "aids", None, None], ["field", None, "oaids", None, None]]}]}
LIST_BASE = {"ids": ["a", "b"], "oids": ["c", None], "idss": [["d"], None], "a": {"name": "n", "aids": ["e"], "oaids": None},
             "node": {"__typename": "A", "aids": ["f"], "aliased": ["g", None]}}
I64MIN, I64MAX = -2**63, 2**63 - 1
# (path, [(value, expected re-serialisation | ERR | ABSENT)])
ERR, ABSENT = "ERR", "ABSENT"
LIST_VECTORS = [
    (("ids",), [(["x", 5, I64MIN, I64MAX], ["x", "5", str(I64MIN), str(I64MAX)]), ([], []), ([1.5], ERR), ([True], ERR), ([None], ERR), (None, ERR), ("x", ERR), (5, ERR),
                ([["x"]], ERR), ([2**63], ERR), ({}, ERR), (ABSENT, ERR)]),
    (("oids",), [(None, None), (ABSENT, None), (["x", None, 7], ["x", None, "7"]), ([], []), ([2**63], ERR), (5, ERR), ("x", ERR), ([1.0], ERR), ([[1]], ERR)]),
    (("idss",), [([["a", 1], None, []], [["a", "1"], None, []]), (None, None), (ABSENT, None), ([[None]], ERR), ([["a", 1.5]], ERR), (["a"], ERR), ([[["a"]]], ERR)]),
    (("a", "aids"), [([1, "2"], ["1", "2"]), (None, None), (ABSENT, None), ([None], ERR), ([False], ERR), ("1", ERR)]),
    (("a", "oaids"), [([None, 0, "z"], [None, "0", "z"]), (None, None), (ABSENT, None), ([{}], ERR)]),
    (("node", "aids"), [([I64MAX], [str(I64MAX)]), (None, None), (ABSENT, None), ([None], ERR), (7, ERR)]),
    (("node", "aliased"), [([None], [None]), ([-1], ["-1"]), (ABSENT, None), ([1e3], ERR)]),
]


def list_cases(run):
    rng = run.rng
    s = id_schema(with_lists=True)
    out = []
    for oi, opts in enumerate([{}, {"normalization": "rust", "other_variant": True, "skip_none": True, "custom_scalars_module": "AUTO"}]):
        c = C.make_case("l%d" % oi, s, LIST_DOC, rng, options=opts, fmt=["sdl", "json"][oi])
        vecs = [{"id": "base", "kind": "resp", "target": "Q3", "input": LIST_BASE, "expect": {"ok": True, "reser": LIST_BASE}, "label": "conforming"}]
        for pi, (path, table) in enumerate(LIST_VECTORS):
            for vi, (val, exp) in enumerate(table):
                inp = set_path(LIST_BASE, path, None, delete=True) if val == ABSENT else set_path(LIST_BASE, path, val)
                vec = {"id": "L%d.%d" % (pi, vi), "kind": "resp", "target": "Q3", "input": inp, "position_kind": "list",
                       "label": "list<-%s@%s" % (json.dumps(val)[:40], "/".join(path))}
                vec["expect"] = {"ok": False} if exp == ERR else {"ok": True, "reser": set_path(LIST_BASE, path, exp)}
                vecs.append(vec)
        c["vectors"] = vecs
        c["positions"] = len(LIST_VECTORS)
        out.append(c)
    return out


def id_schema(with_lists=False):
    s = Schema()

    def f(n, t):
        return {"name": n, "type": t, "args": [], "deprecated": None}
    common = [f("id", NN(T("ID"))), f("oid", T("ID"))]
    s.add("Node", {"kind": "interface", "fields": [dict(x) for x in common]})
    a_extra = [f("aids", L(NN(T("ID")))), f("oaids", L(T("ID")))] if with_lists else []
    s.add("A", {"kind": "object", "implements": ["Node"], "fields": [dict(x) for x in common] + [f("name", T("String")), f("n", T("Int")), f("a", T("A")), f("aid", T("ID"))] + a_extra})
    s.add("B", {"kind": "object", "implements": ["Node"], "fields": [dict(x) for x in common] + [f("bid", T("ID")), f("rbid", NN(T("ID")))]})
    s.add("U", {"kind": "union", "members": ["A", "B"]})
    q = [f("a", T("A")), f("node", T("Node")), f("u", T("U")), f("plain", T("ID")), f("req", NN(T("ID"))), f("str", T("String")), f("num", T("Int")), f("nodes", L(NN(T("Node"))))]
    if with_lists:
        q += [f("ids", NN(L(NN(T("ID"))))), f("oids", L(T("ID"))), f("idss", L(L(NN(T("ID")))))]
    # custom scalars whose names differ from `ID` in case only, or contain it: unrelated types (GraphQL names are case-sensitive);
    # the consumer maps them to String, so an integer there is a type error like at any String
    for sc in ("Id", "id", "IDENTIFIER", "UUID"):
        s.add(sc, {"kind": "scalar"})

    def dep(n, t, reason):
        return {"name": n, "type": t, "args": [], "deprecated": {"reason": reason, "block": False}}
    s.add("Legacy", {"kind": "object", "implements": [], "fields": [dep("depId", NN(T("ID")), "use id"), dep("depOid", T("ID"), None), dep("depIds", NN(L(NN(T("ID")))), "plural"),
                                                                      f("lookId", T("Id")), f("lookid", NN(T("id"))), f("ident", T("IDENTIFIER")), f("uuid", T("UUID")), f("keep", T("ID"))]})
    q += [f("legacy", T("Legacy"))]
    s.add("Query", {"kind": "object", "implements": [], "fields": q})
    return s


DOCS = [
    # (document model, conforming base payload, [(path, kind)] positions; kind in id / oid / str / int)
    ({"operations": [{"kind": "query", "name": "Q", "vars": [], "sel": [
        ["field", None, "plain", None, None], ["field", None, "req", None, None], ["field", None, "str", None, None], ["field", None, "num", None, None],
        ["field", None, "a", None, [["field", None, "id", None, None], ["field", None, "oid", None, None], ["field", None, "name", None, None], ["spread", "AF"]]],
        ["field", None, "node", None, [["typename"], ["field", None, "id", None, None], ["field", "aliasedOid", "oid", None, None],
                                       ["inline", "B", [["field", None, "bid", None, None], ["field", None, "rbid", None, None]]], ["inline", "A", [["spread", "AF2"]]]]],
        ["field", None, "u", None, [["typename"], ["inline", "A", [["field", None, "id", None, None], ["field", None, "n", None, None]]],
                                    ["inline", "B", [["field", None, "oid", None, None], ["field", None, "bid", None, None]]]]],
        ["field", None, "nodes", None, [["typename"], ["field", None, "oid", None, None], ["spread", "NF"]]]]}],
      "fragments": [{"name": "AF", "on": "A", "sel": [["field", "fid", "id", None, None], ["field", "foid", "oid", None, None], ["field", None, "aid", None, None]]},
                    {"name": "AF2", "on": "A", "sel": [["field", "x", "oid", None, None], ["field", "rid", "id", None, None]]},
                    {"name": "NF", "on": "Node", "sel": [["typename"], ["field", "nid", "id", None, None]]}]},
     {"plain": "p", "req": "r", "str": "s", "num": 1,
      "a": {"id": "1", "oid": "2", "name": "n", "fid": "1", "foid": "2", "aid": "3"},
      "node": {"__typename": "B", "id": "b1", "aliasedOid": "b2", "bid": "b3", "rbid": "b4"},
      "u": {"__typename": "B", "oid": "u1", "bid": "u2"},
      "nodes": [{"__typename": "A", "oid": "n1", "nid": "n2"}]},
     [(("plain",), "oid"), (("req",), "id"), (("a", "id"), "id"), (("a", "oid"), "oid"), (("a", "fid"), "id"), (("a", "foid"), "oid"), (("a", "aid"), "oid"),
      (("node", "id"), "id"), (("node", "aliasedOid"), "oid"), (("node", "bid"), "oid"), (("node", "rbid"), "id"),
      (("u", "oid"), "oid"), (("u", "bid"), "oid"), (("nodes", 0, "oid"), "oid"), (("nodes", 0, "nid"), "id"),
      (("str",), "str"), (("num",), "int"), (("a", "name"), "str")]),
    ({"operations": [{"kind": "query", "name": "Q2", "vars": [], "sel": [
        ["field", None, "node", None, [["typename"], ["inline", "A", [["field", None, "id", None, None], ["field", None, "aid", None, None], ["field", None, "a", None, [["field", None, "oid", None, None]]]]],
                                       ["spread", "BF"]]],
        ["field", None, "u", None, [["typename"], ["spread", "UA"], ["inline", "B", [["field", None, "rbid", None, None]]]]]]}],
      "fragments": [{"name": "BF", "on": "B", "sel": [["field", None, "rbid", None, None], ["field", None, "bid", None, None]]},
                    {"name": "UA", "on": "A", "sel": [["field", None, "oid", None, None], ["field", None, "n", None, None]]}]},
     {"node": {"__typename": "A", "id": "1", "aid": "2", "a": {"oid": "3"}}, "u": {"__typename": "A", "oid": "4", "n": 5}},
     [(("node", "id"), "id"), (("node", "aid"), "oid"), (("node", "a", "oid"), "oid"), (("u", "oid"), "oid"), (("u", "n"), "int")]),
    # deprecated ID fields (the coercion belongs to the type, whatever else is attached to the field) and look-alike custom scalars
    ({"operations": [{"kind": "query", "name": "Q3", "vars": [], "sel": [
        ["field", None, "legacy", None, [["field", None, "depId", None, None], ["field", None, "depOid", None, None], ["field", None, "keep", None, None],
                                         ["field", None, "lookId", None, None], ["field", None, "lookid", None, None], ["field", None, "ident", None, None], ["field", None, "uuid", None, None]]]]}],
      "fragments": []},
     {"legacy": {"depId": "d1", "depOid": "d2", "keep": "k", "lookId": "l1", "lookid": "l2", "ident": "i", "uuid": "u"}},
     [(("legacy", "depId"), "id"), (("legacy", "depOid"), "oid"), (("legacy", "keep"), "oid"),
      (("legacy", "lookId"), "str"), (("legacy", "lookid"), "rstr"), (("legacy", "ident"), "str"), (("legacy", "uuid"), "str")]),
]


def set_path(d, path, v, delete=False):
    d = copy.deepcopy(d)
    t = d
    for k in path[:-1]:
        t = t[k]
    if delete:
        del t[path[-1]]
    else:
        t[path[-1]] = v
    return d


def get_path(d, path):
    for k in path:
        d = d[k]
    return d


def norm_expected(base):
    """expected re-serialisation of the base payload: __typename dropped in object scopes is not needed here (abstract scopes only)"""
    return copy.deepcopy(base)


def compiled_cases(run):
    rng = run.rng
    out = []
    s = id_schema()
    for di, (doc, base, positions) in enumerate(DOCS):
        # custom_scalars_module redirects the schema's custom scalars only: ID is built in and keeps its coercion (C16-r10m1)
        for oi, opts in enumerate([{}, {"normalization": "rust", "other_variant": True, "custom_scalars_module": "AUTO"}, {"skip_none": True}] if di < 2 else [{}, {"deprecation": "allow", "custom_scalars_module": "AUTO"}, {"deprecation": "warn", "skip_none": True}]):
            c = C.make_case("d%do%d" % (di, oi), s, doc, rng, options=opts, fmt=["sdl", "json", "sdl"][oi])
            if oi == 2:
                # SDL that declares the built-in scalars explicitly (legal, and common in schema dumps)
                from ..model import render_sdl
                c["schema_text"] = render_sdl(s, declare_builtins=True)
                c["schema_ext"] = "graphql"
            vecs = [{"id": "base", "kind": "resp", "target": doc["operations"][0]["name"], "input": base, "expect": {"ok": True, "reser": norm_expected(base)}, "label": "conforming"}]
            for pi, (path, kind) in enumerate(positions):
                values = STR_VALUES[:6] + INT_VALUES + BAD_VALUES + [None]
                for vi, v in enumerate(values):
                    if kind in ("id", "oid"):
                        ref = reference(v, kind == "oid")
                    elif kind == "str":
                        ref = ("ok", v) if isinstance(v, str) or v is None else ("err",)
                    elif kind == "rstr":
                        ref = ("ok", v) if isinstance(v, str) else ("err",)
                    else:
                        ok = (isinstance(v, int) and not isinstance(v, bool) and -2**63 <= v < 2**63) or v is None
                        ref = ("ok", v) if ok else ("err",)
                    p2 = set_path(base, path, v)
                    vec = {"id": "p%d.v%d" % (pi, vi), "kind": "resp", "target": doc["operations"][0]["name"], "input": p2,
                           "label": "%s<-%s@%s" % (kind, json.dumps(v)[:30], "/".join(map(str, path))), "position_kind": kind}
                    if ref[0] == "ok":
                        vec["expect"] = {"ok": True, "reser": set_path(base, path, ref[1])}
                    else:
                        vec["expect"] = {"ok": False}
                    vecs.append(vec)
                if kind == "oid":
                    vecs.append({"id": "p%d.absent" % pi, "kind": "resp", "target": doc["operations"][0]["name"], "input": set_path(base, path, None, delete=True),
                                 "label": "absent@%s" % "/".join(map(str, path)), "position_kind": "absent", "expect": {"ok": True, "reser": set_path(base, path, None)}})
                elif kind == "id":
                    vecs.append({"id": "p%d.absent" % pi, "kind": "resp", "target": doc["operations"][0]["name"], "input": set_path(base, path, None, delete=True),
                                 "label": "absent@%s" % "/".join(map(str, path)), "position_kind": "absent-required", "expect": {"ok": False}})
            c["vectors"] = vecs
            c["positions"] = len(positions)
            out.append(c)
    return out


def execute(run, cases, tag="b0"):
    fac = Factory("%s-%s-%d" % (run.prop, tag, run.seed))
    gen, verdict, obs = fac.run(cases)
    for c in cases:
        cid = c["id"]
        g = gen[cid]
        if g["outcome"] != "ok":
            run.violation(c, "generation-%s: %s" % (g["outcome"], (g.get("message") or "")[:200]))
            continue
        v = verdict.get(cid)
        if v == "inconclusive":
            run.inconclusive_case(cid, "build failed without attribution %s" % (fac.unattributed[:1],))
            continue
        if v != "accepted":
            run.evaluated()
            run.violation(c, "rustc %s: %s" % (v.get("code"), v.get("message")))
            if c["corpus"] != "clean":
                run.witness_result(c["corpus"].split(":")[1], True)
            continue
        o = obs.get(cid)
        if o is None or o.get("signal") or o.get("exit") != 0:
            run.inconclusive_case(cid, "probe exit=%s signal=%s" % (o and o.get("exit"), o and o.get("signal")))
            continue
        run.count("compiled-positions", c.get("positions", 0))
        nfail = 0
        for vec in c["vectors"]:
            run.evaluated()
            run.count("compiled-vectors")
            pk = vec.get("position_kind")
            if pk == "absent":
                run.count("absent-nullable")
            if pk in ("str", "int"):
                run.count("negative-controls")
            if pk == "list":
                run.count("list-position-vectors")
            sym = C.judge_resp(vec, o["obs"].get(vec["id"]))
            if sym is None:
                run.held()
                if pk in ("id", "oid") and not isinstance(get_or_none(vec), str):
                    run.nontrivial(c["doc_text"], vec["label"])
            else:
                nfail += 1
                one = dict(c)
                one["vectors"] = [vec]
                run.violation(one, "%s: %s" % (vec["label"], sym), {"observed": o["obs"].get(vec["id"])})
                if nfail >= 3:
                    break
        if c["corpus"] != "clean":
            run.witness_result(c["corpus"].split(":")[1], nfail > 0)
        if nfail == 0:
            run.sample({"document": c["doc_text"], "options": c["options"], "vectors": len(c["vectors"]), "example": c["vectors"][20]["label"] if len(c["vectors"]) > 20 else None}, limit=3)
    run.extra.setdefault("timing", []).append(fac.timing)
    fac.cleanup()


def get_or_none(vec):
    lab = vec.get("label", "")
    try:
        return json.loads(lab.split("<-", 1)[1].rsplit("@", 1)[0])
    except Exception:
        return None


def main(run):
    run.rule = RULE
    run.assumptions = ["reference coercion: string verbatim; integer within i64 -> decimal; anything else rejected; nullable: null / absent -> None",
                       "documents are fixed (every structural ID position once); values and options vary"]
    direct(run)
    cs = compiled_cases(run)
    cs += list_cases(run)
    cs += hazards.cases_for(run, "C16")
    execute(run, cs)
    return run.finish(floor=FLOOR)


def replay(run, rec):
    c = rec["case"]
    if "vectors" in c:
        execute(run, [c], tag="replay")
    else:
        direct(run)
    return run.finish()
