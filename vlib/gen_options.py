"""Option-set sampling (C02, C09, C19): every documented option of the generator."""
from . import names

RESP_DERIVES = [None, "Debug", "Clone,PartialEq", "Serialize,Debug,PartialEq", "Debug, Clone ,PartialEq,Serialize"]
VARS_DERIVES = [None, "Debug", "Clone,PartialEq", "Deserialize,Debug,PartialEq", "Debug,Clone"]
VISIBILITIES = [None, "pub", "inherited", "pub(crate)"]


def sample_options(rng, schema, cid, probe=False, allow_extern=True, allow_module=True):
    """probe=True keeps the derives the probe needs (Serialize on responses, Deserialize on variables)"""
    o = {}
    if probe:
        o["response_derives"] = rng.choice(["Serialize,Debug,PartialEq", "Serialize,Debug,PartialEq,Clone", "Serialize"])
        o["variables_derives"] = rng.choice(["Deserialize,Debug,PartialEq", "Deserialize,Debug,Clone,PartialEq", "Deserialize"])
        o["visibility"] = rng.choice(["pub", "pub", "pub(crate)", "inherited"])
    else:
        o["response_derives"] = rng.choice(RESP_DERIVES)
        o["variables_derives"] = rng.choice(VARS_DERIVES)
        o["visibility"] = rng.choice(VISIBILITIES)
    o["normalization"] = rng.choice([None, "none", "rust"])
    o["deprecation"] = rng.choice([None, "allow", "warn", "deny"])
    o["other_variant"] = rng.random() < 0.4
    o["skip_none"] = rng.random() < 0.4
    if allow_module and rng.random() < 0.35:
        o["custom_scalars_module"] = "crate::%s::scalars" % cid
    enums = schema.of_kind("enum")
    if allow_extern and enums and rng.random() < 0.35:
        o["extern_enums"] = sorted(rng.sample(enums, rng.randint(1, len(enums))))
    return {k: v for k, v in o.items() if v is not None}
