"""Reference semantics written from the GraphQL spec: which keys a response object carries for a
given runtime type (CollectFields), conforming payload generation with the expected
re-serialisation, the single-point corruption catalogue, the input-coercion validator, and the
key-ownership hazard analysis. Independent of graphql-client."""
import copy
import json

from .model import base, is_nn, strip_nn, frag_map, root_type, has_list
from . import names


class Ref:
    def __init__(self, schema, doc):
        self.s = schema
        self.doc = doc
        self.frags = frag_map(doc)

    # --- CollectFields: ordered {response key: item}; first occurrence wins (clean corpus never merges)
    def collect(self, items, R, out=None, guard=()):
        out = {} if out is None else out
        for it in items:
            if it[0] == "typename":
                out.setdefault("__typename", it)
            elif it[0] == "field":
                out.setdefault(it[1] or it[2], it)
            elif it[0] == "inline":
                if self.s.applies(it[1], R):
                    self.collect(it[2], R, out, guard)
            elif it[0] == "spread":
                fr = self.frags[it[1]]
                if self.s.applies(fr["on"], R) and it[1] not in guard:
                    self.collect(fr["sel"], R, out, guard + (it[1],))
        return out

    def collect_scopes(self, items, R, scope, out=None, guard=()):
        """like collect, but -> {response key: type whose selection set holds the winning item} (the declaration a
        per-declaration attribute such as @deprecated is read from)"""
        out = {} if out is None else out
        for it in items:
            if it[0] == "typename":
                out.setdefault("__typename", scope)
            elif it[0] == "field":
                out.setdefault(it[1] or it[2], scope)
            elif it[0] == "inline":
                if self.s.applies(it[1], R):
                    self.collect_scopes(it[2], R, it[1], out, guard)
            elif it[0] == "spread":
                fr = self.frags[it[1]]
                if self.s.applies(fr["on"], R) and it[1] not in guard:
                    self.collect_scopes(fr["sel"], R, fr["on"], out, guard + (it[1],))
        return out

    def common_keys(self, items, static_type, out=None, guard=()):
        """keys owned by the scope itself (not by a variant): direct fields and spreads on the static type"""
        out = {} if out is None else out
        for it in items:
            if it[0] == "typename":
                out.setdefault("__typename", it)
            elif it[0] == "field":
                out.setdefault(it[1] or it[2], it)
            elif it[0] == "inline" and it[1] == static_type:
                self.common_keys(it[2], static_type, out, guard)
            elif it[0] == "spread":
                fr = self.frags[it[1]]
                if fr["on"] == static_type and it[1] not in guard:
                    self.common_keys(fr["sel"], static_type, out, guard + (it[1],))
        return out

    def field_type(self, parent_type, it):
        """schema type of a selected field; parent_type is the type whose selection set holds `it`"""
        f = self.s.field(parent_type, it[2])
        return f["type"] if f else None


# ------------------------------------------------------------------------------------------------
# payload generation

SCALAR_VALUES = {
    "Int": [0, 1, -1, 2147483647, -2147483648, 42],
    "Float": [0.5, -1.5, 1e308, 5e-324, 3.25, 7, 0, -0.0],
    "String": ["", "x", "é☃", "a\"b\\c\n", "42", "null", "__typename"],
    "Boolean": [True, False],
}
ID_INTS = [0, -1, 9223372036854775807, -9223372036854775808, 17]
ID_STRS = ["", "007", "abc", "é", "-0", "1e3"]
CUSTOM_SCALAR_VALUES = ["2020-01-01", "", "ü"]


class PayloadGen:
    """Generates (payload, expected re-serialisation) pairs for an operation.

    The expected value is the payload with exactly the differences the property allows:
    null members dropped (null vs absent at nullable positions), integer IDs as decimal strings,
    `__typename` dropped in scopes whose static type is an object type. Floats compare
    numerically. Parent types are tracked while walking so that field types come from the
    schema, not from the payload."""

    def __init__(self, ref, rng, max_depth=7, drop_deprecated=False):
        self.drop_deprecated = drop_deprecated   # deprecation strategy `deny`: the field is not part of the Rust type
        self.ref = ref
        self.s = ref.s
        self.rng = rng
        self.max_depth = max_depth
        self.stats = {}

    def count(self, k):
        self.stats[k] = self.stats.get(k, 0) + 1

    def gen_operation(self, op, force=None):
        """force: optional dict guiding choices: {"runtime": {path: R}, "nullness": "all-null"|"none-null"|None, "list_len": n}"""
        self.force = force or {}
        rt = root_type(self.s, op)
        return self.gen_scope(op["sel"], rt, rt, 0, ())

    def pick_runtime(self, static_type, path):
        poss = self.s.possible(static_type)
        want = self.force.get("runtime_idx")
        if want is not None and len(poss) > 1:
            return poss[want % len(poss)]
        return self.rng.choice(poss)

    def gen_scope(self, items, static_type, decl_type, depth, path):
        """items is a selection set whose static type is static_type"""
        R = self.pick_runtime(static_type, path)
        if self.s.kind(static_type) != "object":
            self.count("abstract-position")
        fields = self.ref.collect(items, R)
        scopes = self.ref.collect_scopes(items, R, static_type) if self.drop_deprecated else {}
        p, e = {}, {}
        for key, it in fields.items():
            if it[0] == "typename":
                p[key] = R
                if self.s.kind(static_type) != "object":
                    e[key] = R
                continue
            # the field is defined on the runtime type (interfaces' fields are copied to implementors by the spec)
            f = self.s.field(R, it[2])
            if f is None:
                f = self.s.field(static_type, it[2])
            pv, ev = self.gen_t(f["type"], it[4], depth, path + (key,))
            p[key] = pv
            # deprecation is read from the declaration in whose scope the field was selected (interface vs implementing object)
            decl = (self.s.field(scopes.get(key), it[2]) if scopes.get(key) else None) or f
            if ev is not None and not (self.drop_deprecated and decl.get("deprecated") is not None):
                e[key] = ev
        return p, e

    def gen_t(self, t, sub, depth, path, nullable=True):
        r = self.rng
        if t[0] == "nn":
            return self.gen_t(t[1], sub, depth, path, nullable=False)
        if nullable:
            mode = self.force.get("nullness")
            pnull = 0.22 if depth < self.max_depth - 2 else 0.95
            if mode == "all-null":
                pnull = 1.0
            elif mode == "none-null" and depth < self.max_depth - 2:
                pnull = 0.0
            if r.random() < pnull:
                self.count("null")
                return None, None
        if t[0] == "list":
            if depth >= self.max_depth - 1:
                n = 0
            else:
                n = self.force.get("list_len")
                if n is None:
                    n = r.choice([0, 1, 2, 3])
            self.count("list-len-%s" % (n if n < 2 else "n"))
            ps, es = [], []
            for i in range(n):
                a, b = self.gen_t(t[1], sub, depth + 1, path + (i,))
                ps.append(a)
                es.append(b)
            return ps, es
        b = t[1]
        k = self.s.kind(b)
        if k == "scalar":
            if b == "ID":
                if r.random() < 0.5:
                    v = r.choice(ID_INTS)
                    self.count("id-int")
                    return v, str(v)
                v = r.choice(ID_STRS)
                self.count("id-str")
                return v, v
            if b in SCALAR_VALUES:
                v = r.choice(SCALAR_VALUES[b])
                return v, v
            v = r.choice(CUSTOM_SCALAR_VALUES)
            self.count("custom-scalar")
            return v, v
        if k == "enum":
            v = r.choice(self.s.types[b]["values"])
            self.count("enum")
            return v, v
        if depth >= self.max_depth:
            raise RecursionError("non-null recursion too deep")
        return self.gen_scope(sub, b, b, depth + 1, path)


def same(a, b):
    """JSON equality with numeric comparison of numbers and null members dropped from objects"""
    if isinstance(a, bool) or isinstance(b, bool):
        return a is b
    if isinstance(a, (int, float)) and isinstance(b, (int, float)):
        return float(a) == float(b) and (a == b or isinstance(a, float) or isinstance(b, float))
    if type(a) != type(b):
        return False
    if isinstance(a, dict):
        ka = {k for k, v in a.items() if v is not None}
        kb = {k for k, v in b.items() if v is not None}
        return ka == kb and all(same(a[k], b[k]) for k in ka)
    if isinstance(a, list):
        return len(a) == len(b) and all(same(x, y) for x, y in zip(a, b))
    return a == b


def first_diff(a, b, path=""):
    if isinstance(a, dict) and isinstance(b, dict):
        ka = {k for k, v in a.items() if v is not None}
        kb = {k for k, v in b.items() if v is not None}
        for k in sorted(ka ^ kb):
            return "%s/%s: only in %s" % (path, k, "observed" if k in ka else "expected")
        for k in sorted(ka):
            d = first_diff(a[k], b[k], path + "/" + k)
            if d:
                return d
        return None
    if isinstance(a, list) and isinstance(b, list):
        if len(a) != len(b):
            return "%s: length %d vs %d" % (path, len(a), len(b))
        for i, (x, y) in enumerate(zip(a, b)):
            d = first_diff(x, y, "%s/%d" % (path, i))
            if d:
                return d
        return None
    return None if same(a, b) else "%s: %s vs %s" % (path, json.dumps(a)[:80], json.dumps(b)[:80])


# ------------------------------------------------------------------------------------------------
# corruption catalogue (C03)

KIND_SWAPS = {
    "Int": ["s", 1.5, True],
    "Float": ["s", True],
    "String": [1, True],
    "Boolean": [1, "true"],
    "ID": [1.5, True, [], {}],
    "enum": [1, True],
}


def corruptions(ref, op, payload, other_variant):
    """every single-point corruption of a conforming payload.
    returns [(label, payload', expect)] with expect in {"err"} or ("unknown", common-keys-expected)"""
    s = ref.s
    out = []

    def emit(label, root, expect="err"):
        out.append((label, root, expect))

    def mutate(path, fn):
        c = copy.deepcopy(payload)
        tgt = c
        for k in path[:-1]:
            tgt = tgt[k]
        fn(tgt, path[-1])
        return c

    def set_to(v):
        return lambda d, k: d.__setitem__(k, copy.deepcopy(v))

    def delete(d, k):
        del d[k]

    def walk_value(v, t, sub, path, pstr):
        """v is the payload value at a position of type t (path addresses it)"""
        if t[0] == "nn":
            inner = t[1]
        else:
            inner = t
            if v is None:
                return
        if inner[0] == "list":
            # list -> non-list
            if len(v) > 0 and not isinstance(v[0], list) and v[0] is not None:
                emit("unlist@" + pstr, mutate(path, set_to(v[0])))
            emit("list<-obj@" + pstr, mutate(path, set_to({})))
            et = inner[1]
            if is_nn(et) and len(v) > 0:
                emit("null-elem@" + pstr, mutate(path + (0,), set_to(None)))
            for i, x in enumerate(v[:2]):
                walk_value(x, et, sub, path + (i,), "%s[%d]" % (pstr, i))
            return
        b = inner[1]
        k = s.kind(b)
        if k == "scalar":
            if b in KIND_SWAPS:
                for w in KIND_SWAPS[b]:
                    emit("kind:%s<-%s@%s" % (b, json.dumps(w), pstr), mutate(path, set_to(w)))
            return
        if k == "enum":
            for w in KIND_SWAPS["enum"]:
                emit("kind:enum<-%s@%s" % (json.dumps(w), pstr), mutate(path, set_to(w)))
            return
        # composite
        emit("obj<-scalar@" + pstr, mutate(path, set_to(5)))
        Rv = v.get("__typename") if s.kind(b) != "object" else b
        coll = ref.collect(sub, Rv)
        # the Rust type of a member follows the declaration in whose scope it is selected (an implementing object may narrow
        # `T` to `T!`; selected in the interface's scope the member is still optional)
        sc2 = ref.collect_scopes(sub, Rv, b)
        has_required = any(k2 != "__typename" and is_nn((s.field(sc2.get(k2) or Rv, it2[2]) or s.field(Rv, it2[2]) or s.field(b, it2[2]))["type"])
                           for k2, it2 in coll.items() if it2[0] == "field")
        if has_required or s.kind(b) != "object":
            # `[]` in place of an object: every key is missing, so it must fail when a non-null key (or the
            # `__typename` tag of an abstract position) is among them. serde also reads structs from sequences,
            # and an all-optional struct accepts `[]`; the property does not speak about that, so it is not generated
            emit("obj<-list@" + pstr, mutate(path, set_to([])))
        walk_scope(v, sub, b, path, pstr)

    def walk_scope(obj, items, static_type, path, pstr):
        abstract = s.kind(static_type) != "object"
        R = obj.get("__typename") if abstract else static_type
        fields = ref.collect(items, R)
        scopes = ref.collect_scopes(items, R, static_type)
        for key, it in fields.items():
            here = path + (key,)
            hs = pstr + "/" + key
            if it[0] == "typename":
                if abstract:
                    emit("del-typename@" + hs, mutate(here, delete))
                    if other_variant:
                        common = ref.common_keys(items, static_type)
                        emit("unknown-typename@" + hs, mutate(here, set_to("Zzz_Unknown_Type")), ("unknown", sorted(k for k in common if k != "__typename")))
                    else:
                        emit("unknown-typename@" + hs, mutate(here, set_to("Zzz_Unknown_Type")))
                    # a non-string tag: an error, or - with the other-variant option - possibly the Unknown variant
                    emit("typename<-int@" + hs, mutate(here, set_to(7)), ("unknown-or-err", []) if other_variant else "err")
                continue
            f = s.field(scopes.get(key) or R, it[2]) or s.field(R, it[2]) or s.field(static_type, it[2])
            t = f["type"]
            if is_nn(t):
                emit("null@" + hs, mutate(here, set_to(None)))
                emit("del@" + hs, mutate(here, delete))
            walk_value(obj[key], t, it[4], here, hs)

    walk_scope(payload, op["sel"], root_type(s, op), (), "")
    return out


# ------------------------------------------------------------------------------------------------
# input coercion validator (C04): judges a serialised JSON value against a schema type expression

def valid_input(s, v, t, path="$"):
    """returns None when valid, else a reason string"""
    if t[0] == "nn":
        if v is None:
            return "%s: null at non-null position" % path
        return valid_input(s, v, t[1], path)
    if v is None:
        return None
    if t[0] == "list":
        if not isinstance(v, list):
            return "%s: non-list at list position" % path
        for i, x in enumerate(v):
            r = valid_input(s, x, t[1], "%s[%d]" % (path, i))
            if r:
                return r
        return None
    b = t[1]
    k = s.kind(b)
    if k == "scalar":
        if b == "Int":
            ok = isinstance(v, int) and not isinstance(v, bool)
        elif b == "Float":
            ok = isinstance(v, (int, float)) and not isinstance(v, bool)
        elif b in ("String",):
            ok = isinstance(v, str)
        elif b == "ID":
            ok = isinstance(v, str) or (isinstance(v, int) and not isinstance(v, bool))
        elif b == "Boolean":
            ok = isinstance(v, bool)
        else:
            ok = True  # custom scalar: user-supplied type
        return None if ok else "%s: %s is not a valid %s" % (path, json.dumps(v)[:40], b)
    if k == "enum":
        if isinstance(v, str) and v in s.types[b]["values"]:
            return None
        return "%s: %s is not a value of enum %s" % (path, json.dumps(v)[:40], b)
    if k == "input":
        if not isinstance(v, dict):
            return "%s: non-object at input object position" % path
        td = s.types[b]
        fmap = {f: ft for f, ft in td["fields"]}
        for key in v:
            if key not in fmap:
                return "%s: key %s is not a field of input %s" % (path, json.dumps(key), b)
        if td.get("one_of"):
            nonnull = [key for key, x in v.items() if x is not None]
            if len(v) != 1 or len(nonnull) != 1:
                return "%s: @oneOf input %s must have exactly one non-null key, has %s" % (path, b, sorted(v))
        for f, ft in td["fields"]:
            if f not in v:
                if is_nn(ft):
                    return "%s: required field %s missing" % (path, f)
                continue
            r = valid_input(s, v[f], ft, "%s.%s" % (path, f))
            if r:
                return r
        return None
    return "%s: %s is not an input type" % (path, b)


# ------------------------------------------------------------------------------------------------
# key ownership (hazard K1) and other structural hazards of a document

class Hazards:
    def __init__(self, schema, doc):
        self.s = schema
        self.doc = doc
        self.frags = frag_map(doc)

    def owners(self, items, R, owner, out, guard=()):
        for it in items:
            if it[0] == "field":
                out.append((it[1] or it[2], owner))
            elif it[0] == "inline":
                if self.s.applies(it[1], R):
                    self.owners(it[2], R, ("variant", it[1]), out, guard)
            elif it[0] == "spread":
                fr = self.frags[it[1]]
                if self.s.applies(fr["on"], R) and it[1] not in guard:
                    self.owners(fr["sel"], R, ("frag", it[1], id(it)), out, guard + (it[1],))

    def scope_clean(self, items, tname):
        for R in self.s.possible(tname):
            out = []
            self.owners(items, R, ("self",), out)
            keys = {}
            for k, o in out:
                keys.setdefault(k, []).append(o)
            for k, os in keys.items():
                if len(os) > 1:
                    return "dup-key %s at %s (runtime %s)" % (k, tname, R)
            # Rust identifiers of the keys owned by one struct must differ
            by_owner = {}
            for k, o in out:
                by_owner.setdefault(o, []).append(k)
            for o, ks in by_owner.items():
                idents = {}
                for k in ks:
                    i = names.rust_field_ident(k)
                    if i in idents and idents[i] != k:
                        return "ident-collision %s/%s" % (k, idents[i])
                    idents[i] = k
        return None

    def walk_scopes(self):
        """yield (items, static type) for every selection-set scope of the document"""
        def fields_in(items, tname):
            for it in items:
                if it[0] == "field":
                    yield it, tname
                elif it[0] == "inline":
                    # an inline fragment's fields belong to the enclosing JSON object
                    yield from fields_in(it[2], it[1])

        def rec(items, tname):
            yield items, tname
            for it, pt in fields_in(items, tname):
                if it[4] is not None:
                    f = self.s.field(pt, it[2])
                    if f is not None:
                        yield from rec(it[4], base(f["type"]))
        for op in self.doc["operations"]:
            yield from rec(op["sel"], root_type(self.s, op))
        for fr in self.doc["fragments"]:
            yield from rec(fr["sel"], fr["on"])

    def first_hazard(self):
        for items, tname in self.walk_scopes():
            r = self.scope_clean(items, tname)
            if r:
                return r
        return None
