"""Input side generators (C04, C12): schemas rich in input types, operations declaring variables of
every input type expression, and valid variable assignments with the exact expected serialisation."""
from .model import Schema, T, L, NN, render_type, base, is_nn, BUILTIN_SCALARS
from . import names

FIELD_NAMES = ["id", "name", "fieldName", "snake_field", "PascalField", "SCREAM_FIELD", "_leading", "x1", "type", "match", "in",
               "ref", "value", "a", "URL", "isOK", "async", "self_ref", "next", "items", "where", "loop"]
VAR_NAMES = ["id", "first", "varName", "snake_var", "PascalVar", "SCREAM_VAR", "_under", "type", "in", "fn", "input", "filter", "x9", "where", "r"]
ENUM_VALUES = ["RED", "GREEN", "blue", "darkGray", "light_pink", "V1", "type", "match", "Mixed_Case", "in_progress"]


def wrap_in(rng, t, max_list=3):
    r = rng.random()
    if r < 0.22:
        return t
    if r < 0.42:
        return NN(t)
    if r < 0.52:
        return L(t)
    if r < 0.64:
        return NN(L(NN(t)))
    if r < 0.72:
        return L(NN(t))
    if r < 0.78:
        return NN(L(t))
    if r < 0.86:
        return L(L(NN(t)))
    if r < 0.92:
        return NN(L(NN(L(t))))
    if max_list >= 3:
        return L(NN(L(L(NN(t)))))
    return L(NN(L(NN(t))))


def gen_input_schema(rng, n_inputs=None, one_of=True):
    s = Schema()
    s.add("Date", {"kind": "scalar"})
    if rng.random() < 0.5:
        s.add("big_int", {"kind": "scalar"})
    enums = ["Color"] + (["sort_order"] if rng.random() < 0.5 else [])
    for e in enums:
        vals, seen = [], set()
        for v in rng.sample(ENUM_VALUES, rng.randint(1, 5)):
            c = names.camel(v)
            if c in seen or c in ("Other",):
                continue
            seen.add(c)
            vals.append(v)
        s.add(e, {"kind": "enum", "values": vals})
    leaves = BUILTIN_SCALARS + s.of_kind("scalar") + enums
    n_inputs = n_inputs if n_inputs is not None else rng.randint(1, 5)
    inputs = [rng.choice(["In%s", "In%sInput", "in_%s"]) % chr(65 + i) for i in range(n_inputs)]
    for n in inputs:
        s.add(n, {"kind": "input", "fields": [], "one_of": False})
    for n in inputs:
        one = one_of and rng.random() < 0.3
        fields = []
        used = set()
        fnames = rng.sample(FIELD_NAMES, rng.randint(1, 6))
        for fname in fnames:
            ident = names.rust_field_ident(fname)
            cam = names.camel(fname)
            if ident in used or cam in used:
                continue
            used.add(ident)
            used.add(cam)
            if rng.random() < 0.35:
                b = rng.choice(inputs)
                t = T(b)
                t = rng.choice([t, t, L(t), L(NN(t)), NN(L(NN(t))), L(L(t))])
            else:
                t = wrap_in(rng, T(rng.choice(leaves)))
            if one and is_nn(t):
                t = t[1]
            fields.append([fname, t])
        if one and not any(base(t) in leaves or t[0] == "list" for _, t in fields):
            fields.append(["leaf", T("Int")])
        s.types[n]["fields"] = fields
        s.types[n]["one_of"] = one
        if not one:
            from .gen_schema import input_defaults
            s.types[n]["defaults"] = input_defaults(s, fields, rng)
    s.add("Query", {"kind": "object", "implements": [], "fields": [{"name": "ping", "type": T("Int"), "args": [], "deprecated": None}]})
    s.add("Mutation", {"kind": "object", "implements": [], "fields": [{"name": "pong", "type": T("Boolean"), "args": [], "deprecated": None}]})
    s.roots["mutation"] = "Mutation"
    s.add("Subscription", {"kind": "object", "implements": [], "fields": [{"name": "tick", "type": T("Int"), "args": [], "deprecated": None}]})
    s.roots["subscription"] = "Subscription"
    return s


def gen_var_operation(schema, rng, name="Op1", kind="query", n_vars=None):
    leaves = BUILTIN_SCALARS + schema.of_kind("scalar") + schema.of_kind("enum")
    inputs = schema.of_kind("input")
    n_vars = n_vars if n_vars is not None else rng.randint(1, 8)
    vs = []
    used = set()
    for vn in rng.sample(VAR_NAMES, min(n_vars, len(VAR_NAMES))):
        ident = names.rust_field_ident(vn)
        if ident in used:
            continue
        used.add(ident)
        if inputs and rng.random() < 0.5:
            t = wrap_in(rng, T(rng.choice(inputs)))
        else:
            t = wrap_in(rng, T(rng.choice(leaves)))
        default = None
        if t[0] == "named" and t[1] in ("Int", "String", "Boolean", "Float") and rng.random() < 0.3:
            default = {"Int": "42", "String": '"dflt \\" x"', "Boolean": "true", "Float": "1.5"}[t[1]]
        vs.append({"name": vn, "type": t, "default": default})
    field = {"query": "ping", "mutation": "pong", "subscription": "tick"}[kind]
    return {"kind": kind, "name": name, "vars": vs, "sel": [["field", None, field, None, None]]}


class ValueGen:
    def __init__(self, schema, rng, max_depth=4):
        self.s = schema
        self.rng = rng
        self.max_depth = max_depth

    def value(self, t, depth=0, mode=None):
        """returns (assignment value, ABSENT marker allowed at caller) - a JSON value valid for t"""
        r = self.rng
        if t[0] == "nn":
            return self.value_nn(t[1], depth, mode)
        pn = {"all-none": 1.0, "all-some": 0.0}.get(mode, 0.3)
        if depth >= self.max_depth:
            pn = 1.0
        if r.random() < pn:
            return None
        return self.value_nn(t, depth, mode)

    def value_nn(self, t, depth, mode):
        r = self.rng
        if t[0] == "nn":
            return self.value_nn(t[1], depth, mode)
        if t[0] == "list":
            n = 0 if depth >= self.max_depth else r.choice([0, 1, 2, 3])
            return [self.value(t[1], depth + 1, mode) for _ in range(n)]
        b = t[1]
        k = self.s.kind(b)
        if k == "scalar":
            if b == "Int":
                return r.choice([0, 1, -1, 2147483647, -2147483648])
            if b == "Float":
                return r.choice([0.5, -1.5, 1e308, 3.25, 2])
            if b == "String":
                return r.choice(["", "x", "é☃", "a\"b\\c\n", "null"])
            if b == "Boolean":
                return r.choice([True, False])
            if b == "ID":
                return r.choice(["", "007", "abc", "é"])
            return r.choice(["2020-01-01", ""])
        if k == "enum":
            return r.choice(self.s.types[b]["values"])
        td = self.s.types[b]
        if td.get("one_of"):
            fields = list(td["fields"])
            if depth >= self.max_depth - 1:
                shallow = [f for f in fields if not (self.s.kind(base(f[1])) == "input" and f[1][0] != "list")]
                fields = shallow or fields
            fname, ft = r.choice(fields)
            if depth >= self.max_depth + 3:
                raise RecursionError("oneOf recursion")
            return {fname: self.value_nn(ft, depth + 1, mode)}
        out = {}
        for fname, ft in td["fields"]:
            if is_nn(ft):
                if depth >= self.max_depth + 3:
                    raise RecursionError("non-null input recursion")
                out[fname] = self.value_nn(ft[1], depth + 1, mode)
            else:
                v = self.value(ft, depth + 1, mode)
                # a nullable member may be given as null or left out entirely
                if v is None and r.random() < 0.5:
                    continue
                out[fname] = v
        return out


def expected_exact(schema, v, t, skip_none):
    """the exact JSON the Variables value must serialise to (nulls vs absent decided by skip_none)"""
    if t[0] == "nn":
        return expected_exact(schema, v, t[1], skip_none)
    if v is None:
        return None
    if t[0] == "list":
        return [expected_exact(schema, x, t[1], skip_none) for x in v]
    b = t[1]
    if schema.kind(b) != "input":
        return v
    td = schema.types[b]
    if td.get("one_of"):
        (k, x), = v.items()
        ft = dict((f, ft) for f, ft in td["fields"])[k]
        return {k: expected_exact(schema, x, NN(ft) if not is_nn(ft) else ft, skip_none)}
    out = {}
    for f, ft in td["fields"]:
        x = v.get(f)
        if x is None:
            if is_nn(ft):
                out[f] = None  # cannot happen for valid assignments
            elif not skip_none:
                out[f] = None
            continue
        out[f] = expected_exact(schema, x, ft, skip_none)
    return out


def expected_variables(schema, op, assignment, skip_none):
    out = {}
    for var in op["vars"]:
        x = assignment.get(var["name"])
        if x is None:
            if not (skip_none and not is_nn(var["type"])):
                out[var["name"]] = None
            continue
        out[var["name"]] = expected_exact(schema, x, var["type"], skip_none)
    return out


def strict_same(a, b):
    if isinstance(a, bool) or isinstance(b, bool):
        return a is b
    if isinstance(a, (int, float)) and isinstance(b, (int, float)):
        return float(a) == float(b)
    if type(a) != type(b):
        return False
    if isinstance(a, dict):
        return a.keys() == b.keys() and all(strict_same(a[k], b[k]) for k in a)
    if isinstance(a, list):
        return len(a) == len(b) and all(strict_same(x, y) for x, y in zip(a, b))
    return a == b
