"""Consumer-crate factory (engine B): cases -> generator (real code) -> one source file per case
-> real rustc with JSON diagnostics attributed per case -> generic probe run on test vectors ->
JSONL observations.  Also the thin wrappers around the gendrv driver (engine A)."""
import json
import os
import resource
import shutil
import subprocess
import sys
import time
from concurrent.futures import ThreadPoolExecutor

from . import build

NCPU = os.cpu_count() or 4

PROBE_MAIN = r'''
use graphql_client::GraphQLQuery;
use std::collections::HashMap;
use std::io::BufRead;
use serde_json::{json, Value};

pub type F = Box<dyn Fn(&Value) -> Value>;
pub struct Registry { pub m: HashMap<String, F> }

fn ser<T: serde::Serialize>(x: &T) -> Value {
    match serde_json::to_value(x) { Ok(v) => v, Err(e) => json!({"__ser_error": e.to_string()}) }
}

pub fn reg_resp<Q: GraphQLQuery + 'static>(r: &mut Registry, key: &str) where Q::ResponseData: serde::Serialize {
    r.m.insert(format!("resp:{key}"), Box::new(|v| {
        let a = match serde_json::from_value::<Q::ResponseData>(v.clone()) {
            Ok(x) => json!({"ok": true, "reser": ser(&x)}),
            Err(e) => json!({"ok": false, "err": e.to_string()}) };
        // second route: text deserializer (borrowed strings, no pre-parsed Value)
        let b = match serde_json::from_str::<Q::ResponseData>(&v.to_string()) {
            Ok(x) => json!({"ok": true, "reser": ser(&x)}),
            Err(e) => json!({"ok": false, "err": e.to_string()}) };
        // third route: reader deserializer (every string is transient: visit_str, never borrowed / owned)
        let c = match serde_json::from_reader::<_, Q::ResponseData>(v.to_string().as_bytes()) {
            Ok(x) => json!({"ok": true, "reser": ser(&x)}),
            Err(e) => json!({"ok": false, "err": e.to_string()}) };
        json!({"ok": a["ok"], "reser": a["reser"], "err": a["err"], "str": b, "rdr": c})
    }));
    r.m.insert(format!("envelope:{key}"), Box::new(|v| {
        let rdr = match serde_json::from_reader::<_, graphql_client::Response<Q::ResponseData>>(v.to_string().as_bytes()) {
            Ok(x) => json!({"ok": true, "reser": ser(&x)}),
            Err(e) => json!({"ok": false, "err": e.to_string()}) };
        match serde_json::from_value::<graphql_client::Response<Q::ResponseData>>(v.clone()) {
            Ok(x) => json!({"ok": true, "reser": ser(&x), "rdr": rdr}),
            Err(e) => json!({"ok": false, "err": e.to_string(), "rdr": rdr}) }
    }));
}

pub fn reg_resp_min<Q: GraphQLQuery + 'static>(r: &mut Registry, key: &str) {
    r.m.insert(format!("resp:{key}"), Box::new(|v| {
        match serde_json::from_value::<Q::ResponseData>(v.clone()) {
            Ok(_) => json!({"ok": true}),
            Err(e) => json!({"ok": false, "err": e.to_string()}) }
    }));
}

pub fn reg_vars<Q: GraphQLQuery + 'static>(r: &mut Registry, key: &str) where Q::Variables: serde::de::DeserializeOwned {
    r.m.insert(format!("vars:{key}"), Box::new(|v| {
        match serde_json::from_value::<Q::Variables>(v.clone()) {
            Ok(x) => json!({"ok": true, "body": ser(&Q::build_query(x))}),
            Err(e) => json!({"ok": false, "err": e.to_string()}) }
    }));
}

pub fn reg_enum<E: serde::Serialize + serde::de::DeserializeOwned + std::fmt::Debug + 'static>(r: &mut Registry, key: &str) {
    r.m.insert(format!("enum:{key}"), Box::new(|v| {
        match serde_json::from_value::<E>(v.clone()) {
            Ok(x) => json!({"ok": true, "debug": format!("{:?}", x), "reser": ser(&x)}),
            Err(e) => json!({"ok": false, "err": e.to_string()}) }
    }));
}

pub fn reg_enum_nodebug<E: serde::Serialize + serde::de::DeserializeOwned + 'static>(r: &mut Registry, key: &str) {
    r.m.insert(format!("enum:{key}"), Box::new(|v| {
        match serde_json::from_value::<E>(v.clone()) {
            Ok(x) => json!({"ok": true, "reser": ser(&x)}),
            Err(e) => json!({"ok": false, "err": e.to_string()}) }
    }));
}

fn main() {
    let mut r = Registry { m: HashMap::new() };
    register_all(&mut r);
    let args: Vec<String> = std::env::args().collect();
    if args.len() > 1 && args[1] == "--list" {
        let mut ks: Vec<&String> = r.m.keys().collect();
        ks.sort();
        for k in ks { println!("{}", k); }
        return;
    }
    let stdout = std::io::stdout();
    for line in std::io::stdin().lock().lines() {
        let line = line.unwrap();
        if line.is_empty() { continue; }
        let v: Value = serde_json::from_str(&line).unwrap();
        let key = v["key"].as_str().unwrap();
        let obs = match r.m.get(key) {
            Some(f) => f(&v["input"]),
            None => json!({"no_such_probe": key}),
        };
        use std::io::Write;
        let mut o = stdout.lock();
        serde_json::to_writer(&mut o, &json!({"vid": v["vid"], "obs": obs})).unwrap();
        o.write_all(b"\n").unwrap();
        o.flush().unwrap();
    }
}
'''


FUTEX_NR = 202          # x86_64
_CLK = os.sysconf("SC_CLK_TCK")


def _tree_pids(root):
    """root and its descendants (children lists of every thread, recursively)"""
    out, todo = [], [root]
    while todo:
        p = todo.pop()
        if p in out:
            continue
        out.append(p)
        try:
            for tid in os.listdir("/proc/%d/task" % p):
                try:
                    todo += [int(x) for x in open("/proc/%d/task/%s/children" % (p, tid)).read().split()]
                except OSError:
                    pass
        except OSError:
            pass
    return out


WAIT_NRS = {"61", "247"}                 # wait4, waitid: ends only when a child (inside the tree) changes state
PIPE_IO_NRS = {"0", "1", "19", "20"}     # read, write, readv, writev: endless only on a pipe whose other end is inside the tree


def _thread_states(pid):
    """[(pid/tid, blocked_for_good, schedstat)] for every thread of pid and of its descendants, or None when the root is
    gone. blocked_for_good: the thread sleeps in futex(FUTEX_WAIT[_BITSET], timeout = NULL), in wait4 / waitid, or in a
    read / write on a pipe - states that only another thread of the same process tree can end (the drivers get their
    stdin / stdout / stderr as regular files, share no memory with other processes, arm no timers)."""
    out = []
    pids = _tree_pids(pid)
    if not os.path.isdir("/proc/%d/task" % pid):
        return None
    for p in pids:
        try:
            tids = os.listdir("/proc/%d/task" % p)
        except OSError:
            continue
        for tid in tids:
            try:
                sc = open("/proc/%d/task/%s/syscall" % (p, tid)).read().split()
                st = open("/proc/%d/task/%s/stat" % (p, tid)).read().rsplit(")", 1)[1].split()
                # on-CPU nanoseconds and number of timeslices: unchanged between two samples = the thread never ran in between
                ticks = open("/proc/%d/task/%s/schedstat" % (p, tid)).read().strip()
            except OSError:
                if p == pid:
                    return None
                continue
            if st[0] == "Z":
                continue        # exited, waiting to be reaped: the reaper's wait4 returns at once
            endless = False
            if sc and st[0] == "S":
                if sc[0] == str(FUTEX_NR) and len(sc) >= 5:
                    op = int(sc[2], 16) & 0x7f
                    # FUTEX_WAIT (0) / FUTEX_WAIT_BITSET (9) with a null timeout: only another thread's FUTEX_WAKE ends it
                    endless = op in (0, 9) and int(sc[4], 16) == 0
                elif sc[0] in WAIT_NRS:
                    endless = True
                elif sc[0] in PIPE_IO_NRS and len(sc) >= 2:
                    try:
                        endless = os.readlink("/proc/%d/fd/%d" % (p, int(sc[1], 16))).startswith("pipe:")
                    except (OSError, ValueError):
                        endless = False
            out.append(("%d/%s" % (p, tid), endless, ticks))
    return out


def watched_run(argv, input_bytes=b"", wall_s=600, cwd=None, preexec_fn=None, env=None):
    """Runs a process (and whatever it spawns) to completion under two monitors. (1) deadlock: every thread of the
    process tree sits in a wait that only another thread of the tree can end (futex wait without timeout, wait4, pipe
    read / write) and no thread was scheduled at all (schedstat unchanged) across 4 consecutive samples 0.5 s apart - no
    thread is left that could end any of the waits, so the state is permanent: a decided verdict, not a timing guess. (2) the wall-clock watchdog, whose firing only ever means
    `timed_out` (inconclusive). Returns exit / signal / CPU (os.wait4 of this child) and the captured streams."""
    import tempfile
    t0 = time.time()
    with tempfile.TemporaryFile() as fin, tempfile.TemporaryFile() as fout, tempfile.TemporaryFile() as ferr:
        fin.write(input_bytes)
        fin.flush()
        fin.seek(0)
        p = subprocess.Popen(argv, stdin=fin, stdout=fout, stderr=ferr, preexec_fn=preexec_fn, cwd=cwd, env=env, start_new_session=True)

        def kill_tree():
            import signal
            try:
                os.killpg(p.pid, signal.SIGKILL)     # the process and whatever it spawned (own session)
            except OSError:
                pass
        timed_out = deadlock = False
        streak, last, nthreads = 0, None, 0
        next_sample = t0 + 1.0
        while True:
            pid, status, ru = os.wait4(p.pid, os.WNOHANG)
            if pid:
                break
            now = time.time()
            if now - t0 > wall_s:
                timed_out = True
                kill_tree()
                _, status, ru = os.wait4(p.pid, 0)
                break
            if now >= next_sample:
                next_sample = now + 0.5
                ts = _thread_states(p.pid)
                if ts and all(e for _, e, _ in ts):
                    sig = tuple(sorted((t, c) for t, _, c in ts))
                    streak = streak + 1 if sig == last else 1
                    last = sig
                    nthreads = len(ts)
                    if streak >= 4:
                        deadlock = True
                        kill_tree()
                        _, status, ru = os.wait4(p.pid, 0)
                        break
                else:
                    streak, last = 0, None
            time.sleep(0.02 if now - t0 < 2 else 0.1)
        p.returncode = 0  # reaped by us
        wall = time.time() - t0
        fout.seek(0)
        ferr.seek(0)
        out, err = fout.read(), ferr.read()
    sig = os.WTERMSIG(status) if os.WIFSIGNALED(status) else None
    code = os.WEXITSTATUS(status) if os.WIFEXITED(status) else None
    return {"exit": code, "signal": sig, "wall_s": round(wall, 3), "cpu_s": round(ru.ru_utime + ru.ru_stime, 3), "max_rss_kb": ru.ru_maxrss,
            "timed_out": timed_out, "deadlock": deadlock, "deadlock_threads": nthreads if deadlock else 0, "stdout": out, "stderr_bytes": err}


def run_gendrv(requests, timeout=600, cwd=None):
    """engine A: batch of requests through one `gendrv serve` process -> list of responses (same order)"""
    exe = build.bin_path("gendrv")
    inp = "".join(json.dumps(r) + "\n" for r in requests)
    r = watched_run([exe, "serve"], inp.encode(), wall_s=timeout, cwd=cwd)
    out = []
    for line in r["stdout"].decode("utf-8", "replace").splitlines():
        try:
            out.append(json.loads(line))
        except ValueError:
            break
    if len(out) != len(requests):
        # the driver died (abort / stack overflow) or deadlocked at request len(out): report, then continue after it
        died_at = len(out)
        if r["deadlock"]:
            out.append({"id": requests[died_at].get("id"), "outcome": "deadlock",
                        "message": "gendrv deadlocked: all %d thread(s) in a futex wait without timeout, none scheduled for 2 s" % r["deadlock_threads"]})
        elif r["timed_out"]:
            raise subprocess.TimeoutExpired([exe, "serve"], timeout)
        else:
            out.append({"id": requests[died_at].get("id"), "outcome": "crash",
                        "message": "gendrv exited with %s: %s" % (r["exit"] if r["signal"] is None else -r["signal"], r["stderr_bytes"].decode("utf-8", "replace")[-300:])})
        if died_at + 1 < len(requests):
            out += run_gendrv(requests[died_at + 1:], timeout, cwd)
    return out


def run_gendrv_parallel(requests, nproc=None, timeout=900):
    nproc = nproc or NCPU
    if len(requests) < 64:
        return run_gendrv(requests, timeout)
    chunks = [requests[i::nproc] for i in range(nproc)]
    with ThreadPoolExecutor(nproc) as ex:
        res = list(ex.map(lambda c: run_gendrv(c, timeout) if c else [], chunks))
    out = [None] * len(requests)
    for ci, rs in enumerate(res):
        for j, r in enumerate(rs):
            out[ci + j * nproc] = r
    return out


def _limits(cpu_s, as_bytes):
    def fn():
        if cpu_s:
            resource.setrlimit(resource.RLIMIT_CPU, (cpu_s, cpu_s + 1))
        if as_bytes:
            resource.setrlimit(resource.RLIMIT_AS, (as_bytes, as_bytes))
    return fn


def run_gendrv_one(request, cpu_s=60, as_bytes=4 << 30, wall_s=120, mode="one", cwd=None):
    """one request (mode `one`, nothing caught) or a list of requests (mode `serve`, panics caught as rustc does
    for proc macros) in a fresh process: exit status / signal / CPU time of THIS child (os.wait4) and the deadlock
    monitor of watched_run are the observation; the wall-clock watchdog only ever yields `timed_out`"""
    exe = build.bin_path("gendrv")
    if isinstance(request, list):
        data = "".join(json.dumps(r) + "\n" for r in request).encode()
    else:
        data = json.dumps(request).encode()
    res = watched_run([exe, mode], data, wall_s=wall_s, cwd=cwd, preexec_fn=_limits(cpu_s, as_bytes))
    out, err = res.pop("stdout"), res.pop("stderr_bytes")
    res.update({"stderr": err.decode("utf-8", "replace")[-600:], "panic_message": b"panicked at" in err, "stderr_head": err.decode("utf-8", "replace")[:300]})
    lines = out.decode("utf-8", "replace").splitlines()
    try:
        res["response"] = json.loads(lines[0]) if lines else None
    except ValueError:
        res["response"] = None
    if isinstance(request, list):
        res["responses"] = []
        for l in lines:
            try:
                res["responses"].append(json.loads(l))
            except ValueError:
                break
    return res


# ------------------------------------------------------------------------------------------------

def support_code(case):
    """what the documentation asks the consumer to supply: custom scalar types and external enums"""
    sup = case.get("support") or {}
    out = []
    if case.get("hostile_scope"):
        # what many crates have at module level: their own `Result` alias (and an `Error` to go with it). The generated module
        # does `use super::*`, so these names are in its scope too
        out.append("pub type Result<T> = ::std::result::Result<T, Error>;\n#[derive(Debug)]\npub struct Error;\n")
    mod = sup.get("scalars_module")
    sc = sup.get("scalars") or {}
    body = "".join("pub type %s = %s;\n" % (n, t) for n, t in sorted(sc.items()))
    if mod:
        out.append("pub mod %s {\n%s}\n" % (mod, body))
    else:
        out.append(body)
    if sup.get("serde_reexport"):
        out.append("pub mod %s { pub use ::serde as %s; }\n" % tuple(sup["serde_reexport"]))
    for en, vals in sorted((sup.get("extern_enums") or {}).items()):
        if sup.get("extern_enums_strict"):
            # the consumer's own choice: a plain serde enum that knows exactly the schema's values (like the repository's
            # tests/extern_enums.rs) - observably different from a generated enum, which has the `Other(String)` catch-all
            out.append("#[derive(serde::Serialize, serde::Deserialize, Debug, Clone, PartialEq, Eq)]\n#[allow(non_camel_case_types)]\npub enum %s { %s }\n"
                       % (en, " ".join("#[serde(rename = %s)] V%d," % (json.dumps(v), i) for i, v in enumerate(vals))))
            continue
        # a hand-written enum with the reference wire behaviour
        out.append("#[derive(Debug, Clone, PartialEq, Eq)]\npub enum %s { %s Other(String) }\n" % (en, " ".join("V%d," % i for i in range(len(vals)))))
        out.append("impl serde::Serialize for %s { fn serialize<S: serde::Serializer>(&self, s: S) -> ::std::result::Result<S::Ok, S::Error> { s.serialize_str(match self { %s %s::Other(o) => o.as_str() }) } }\n"
                   % (en, " ".join("%s::V%d => %s," % (en, i, json.dumps(v)) for i, v in enumerate(vals)), en))
        out.append("impl<'de> serde::Deserialize<'de> for %s { fn deserialize<D: serde::Deserializer<'de>>(d: D) -> ::std::result::Result<Self, D::Error> { let s = <String as serde::Deserialize>::deserialize(d)?; Ok(match s.as_str() { %s _ => %s::Other(s) }) } }\n"
                   % (en, " ".join("%s => %s::V%d," % (json.dumps(v), en, i) for i, v in enumerate(vals)), en))
    return "".join(out)


def discover(inspect):
    """from the syn summary of the emitted items: operations (struct, module, OPERATION_NAME,
    derive flags) and GraphQL enums with hand-written serde impls - discovered, not predicted"""
    items = inspect.get("items", [])
    ops = []
    consts = {}
    for it in items:
        if it["kind"] == "const" and it["name"] in ("OPERATION_NAME", "QUERY") and len(it["path"]) == 1:
            consts.setdefault(it["path"][0], {})[it["name"]] = it["value"]
    derives = {}
    for it in items:
        if it["kind"] in ("struct", "enum") and len(it["path"]) == 1:
            derives[(it["path"][0], it["name"])] = it.get("derives", [])
    alias = {}
    for it in items:
        if it["kind"] == "alias" and len(it["path"]) == 1:
            alias[(it["path"][0], it["name"])] = it["target"]

    def derives_of(mod, name, depth=0):
        if (mod, name) in derives:
            return derives[(mod, name)]
        if (mod, name) in alias and depth < 5:
            tgt = alias[(mod, name)]
            if tgt.startswith("Box<"):
                tgt = tgt[4:-1]
            return derives_of(mod, tgt, depth + 1)
        return []
    nvars = {}
    for it in items:
        if it["kind"] == "struct" and len(it["path"]) == 1 and it["name"] == "Variables":
            nvars[it["path"][0]] = len(it.get("fields") or [])
    for it in items:
        if it["kind"] == "impl" and it.get("trait") and it["trait"].endswith("GraphQLQuery") and not it["path"]:
            mod = None
            for tn, tt in it.get("types", []):
                if tn == "Variables":
                    mod = tt.split("::")[0]
            if mod is None:
                continue
            ops.append({"struct": it["for"], "module": mod, "operation_name": consts.get(mod, {}).get("OPERATION_NAME"),
                        "query": consts.get(mod, {}).get("QUERY"),
                        "resp_ser": any(d.split("::")[-1] == "Serialize" for d in derives_of(mod, "ResponseData")),
                        "vars_de": any(d.split("::")[-1] == "Deserialize" for d in derives_of(mod, "Variables")),
                        "n_vars": nvars.get(mod)})
    enums = []
    ser_impls = set()
    for it in items:
        if it["kind"] == "impl" and it.get("trait") and it["trait"].endswith("Serialize") and len(it["path"]) == 1:
            ser_impls.add((it["path"][0], it["for"]))
    for it in items:
        if it["kind"] == "enum" and len(it["path"]) == 1 and (it["path"][0], it["name"]) in ser_impls:
            enums.append({"module": it["path"][0], "name": it["name"], "debug": "Debug" in it.get("derives", []),
                          "variants": [v["ident"] for v in it["variants"]]})
    return {"operations": ops, "enums": enums}


def register_fn(case_mod, disc):
    lines = ["pub fn __verif_register(r: &mut crate::Registry) {"]
    for op in disc["operations"]:
        key = "%s/%s" % (case_mod, op["operation_name"])
        if op["resp_ser"]:
            lines.append("    crate::reg_resp::<%s>(r, %s);" % (op["struct"], json.dumps(key)))
        else:
            lines.append("    crate::reg_resp_min::<%s>(r, %s);" % (op["struct"], json.dumps(key)))
        if op["vars_de"]:
            lines.append("    crate::reg_vars::<%s>(r, %s);" % (op["struct"], json.dumps(key)))
        if op.get("n_vars") == 0:
            # an operation without variables: its `Variables` can be written down without any derive (`Variables {}` is a valid
            # literal for a unit struct and for an empty braced one), so the request body is observable under every option set
            lines.append("    r.m.insert(%s.to_string(), Box::new(|_v| serde_json::json!({\"ok\": true, \"body\": crate::ser(&<%s as graphql_client::GraphQLQuery>::build_query(%s::Variables {}))})));"
                         % (json.dumps("vars0:" + key), op["struct"], op["module"]))
    seen = set()
    for en in disc["enums"]:
        key = "%s/%s/%s" % (case_mod, en["module"], en["name"])
        if key in seen:
            continue
        seen.add(key)
        fn = "reg_enum" if en["debug"] else "reg_enum_nodebug"
        lines.append("    crate::%s::<%s::%s>(r, %s);" % (fn, en["module"], en["name"], json.dumps(key)))
    lines.append("}")
    return "\n".join(lines) + "\n"


def gendrv_request(case, workdir, want=("pretty", "inspect")):
    """writes the case's input files and returns the driver request"""
    ind = os.path.join(workdir, "in")
    os.makedirs(ind, exist_ok=True)
    sp = os.path.join(ind, "%s.schema.%s" % (case["id"], case.get("schema_ext", "graphql")))
    with open(sp, "w", encoding="utf-8", newline="") as f:
        f.write(case["schema_text"])
    req = {"id": case["id"], "schema_path": sp, "options": case.get("options", {}), "want": list(want)}
    if case.get("from_string", False):
        req["query_text"] = case["doc_text"]
    elif case.get("query_file_from"):
        # the SAME query file as an earlier case of the batch (same text), given to another schema
        req["query_path"] = os.path.join(ind, "%s.query.graphql" % case["query_file_from"])
    else:
        qp = os.path.join(ind, "%s.query.graphql" % case["id"])
        with open(qp, "w", encoding="utf-8", newline="") as f:
            f.write(case["doc_text"])
        req["query_path"] = qp
    return req


class Factory:
    def __init__(self, name, nshards=None, keep=False):
        self.name = name
        self.work = os.path.join(build.BUILD, "work", name)
        shutil.rmtree(self.work, ignore_errors=True)
        os.makedirs(self.work)
        self.nshards = nshards or NCPU
        self.timing = {}

    def cleanup(self):
        shutil.rmtree(self.work, ignore_errors=True)

    # -- step 1: generator
    def generate(self, cases):
        t0 = time.time()
        reqs = [gendrv_request(c, self.work) for c in cases]
        resps = run_gendrv_parallel(reqs)
        self.timing["generate_s"] = round(time.time() - t0, 2)
        return {c["id"]: r for c, r in zip(cases, resps)}

    # -- step 2: compile
    def compile(self, cases, gen, check_only=False, serde_dep=True, files=None):
        """returns {case id: "accepted" | {"code","message","line"}} ; builds shard binaries unless check_only.
        files: optional {case id: source text} overriding the generated text (CLI / derive delivery forms)"""
        t0 = time.time()
        ok_cases = [c for c in cases if gen[c["id"]]["outcome"] == "ok" or (files and c["id"] in files)]
        verdict = {}
        self.disc = getattr(self, "disc", {})
        srcs = {}
        for c in ok_cases:
            cid = c["id"]
            if files and cid in files:
                srcs[cid] = files[cid]
                continue
            g = gen[cid]
            insp = g.get("inspect") or {}
            if "parse_error" in insp:
                verdict[cid] = {"code": "syn-parse", "message": insp["parse_error"], "line": None}
                continue
            disc = discover(insp)
            self.disc[cid] = disc
            if c.get("delivery") == "derive" and not c.get("from_string"):
                # the derive delivery form: what the user writes (attribute items in a per-case order), expanded by the proc
                # macro inside rustc; the probes reach the same types as in the library form (names discovered above)
                from .props.c02 import derive_source
                warm = ""
                if c.get("derive_warmup"):
                    # an earlier derive of the same operation in the same crate (sibling module) whose non-neutral flag differs:
                    # what one derive produced must not leak into the next
                    c2 = dict(c, options=dict(c["options"], **c["derive_warmup"]))
                    warm = "pub mod verif_warmup {\n#[allow(unused_imports)] use super::*;\n%s}\n" % derive_source(c2, "../in/%s.schema.%s" % (cid, c.get("schema_ext", "graphql")), "../in/%s.query.graphql" % cid)
                text = support_code(c) + warm + derive_source(c, "../in/%s.schema.%s" % (cid, c.get("schema_ext", "graphql")), "../in/%s.query.graphql" % cid)
            else:
                text = support_code(c) + g["pretty"]
            if not check_only:
                text += register_fn(cid, disc)
            srcs[cid] = text
        live = [c["id"] for c in ok_cases if c["id"] not in verdict]
        shards = [live[i::self.nshards] for i in range(self.nshards)]
        shards = [s for s in shards if s]
        self.shard_of = {}
        self.bins = {}

        def build_shard(args):
            si, ids = args
            sdir = os.path.join(self.work, "shard%d" % si)
            os.makedirs(os.path.join(sdir, "src"), exist_ok=True)
            for cid in ids:
                with open(os.path.join(sdir, "src", "%s.rs" % cid), "w", encoding="utf-8") as f:
                    f.write(srcs[cid])
            bad = {}
            for rnd in range(5):
                cur = [i for i in ids if i not in bad]
                if not cur:
                    return si, bad, None
                main = "#![allow(warnings)]\n" + "".join('#[path = "%s.rs"] pub mod %s;\n' % (i, i) for i in cur)
                if check_only:
                    main += "pub fn main() {}\n"
                else:
                    main += PROBE_MAIN + "fn register_all(r: &mut Registry) {\n" + "".join("    %s::__verif_register(r);\n" % i for i in cur) + "}\n"
                mp = os.path.join(sdir, "src", "main.rs")
                with open(mp, "w") as f:
                    f.write(main)
                out = os.path.join(sdir, "probe")
                cmd = ["rustc", "--edition=2021", "--crate-name", "pc%d" % si, "--crate-type", "bin", "--error-format=json",
                       "-C", "opt-level=0", "-C", "debuginfo=0", "-A", "warnings",
                       "-L", "dependency=" + build.deps_dir(), "--extern", "graphql_client=" + build.rlib("graphql_client")]
                if serde_dep:
                    cmd += ["--extern", "serde=" + build.rlib("serde"), "--extern", "serde_json=" + build.rlib("serde_json")]
                if check_only:
                    cmd += ["--emit=metadata", "-o", os.path.join(sdir, "libpc.rmeta")]
                else:
                    cmd += ["-C", "codegen-units=4", "-o", out]
                cmd.append(mp)
                env = dict(os.environ, CARGO_MANIFEST_DIR=sdir, RUST_BACKTRACE="0")
                env.update(getattr(self, "extra_env", {}))
                # rustc's working directory is not the crate's manifest directory in general (cargo runs it from the workspace root)
                p = subprocess.run(cmd, capture_output=True, text=True, env=env, cwd=getattr(self, "rustc_cwd", None) or sdir)
                if p.returncode == 0:
                    return si, bad, (None if check_only else out)
                newbad = 0
                unattributed = []
                for line in p.stderr.splitlines():
                    try:
                        d = json.loads(line)
                    except ValueError:
                        continue
                    if d.get("level") != "error":
                        continue
                    spans = [s for s in d.get("spans", []) if s.get("is_primary")] or d.get("spans", [])
                    fn = None
                    lineno = None
                    for s in spans:
                        # macro expansions: walk to the outermost call site inside a case file
                        ss = s
                        while ss is not None:
                            b = os.path.basename(ss["file_name"])
                            if b.endswith(".rs") and b[:-3] in srcs:
                                fn, lineno = b[:-3], ss["line_start"]
                            elif b in owners:
                                fn, lineno = owners[b], ss["line_start"]
                            ss = (ss.get("expansion") or {}).get("span")
                        if fn:
                            break
                    if fn and fn in cur:
                        if fn not in bad:
                            bad[fn] = {"code": (d.get("code") or {}).get("code"), "message": d["message"][:300], "line": lineno}
                            newbad += 1
                    elif not fn and "aborting due to" not in d["message"]:
                        unattributed.append(d["message"][:300])
                if newbad == 0:
                    return si, bad, {"unattributed": unattributed or [p.stderr[-500:]], "cases": cur}
            return si, bad, {"unattributed": ["too many rounds"], "cases": cur}

        owners = getattr(self, "file_owner", {})   # extra source files (CLI output) -> owning case
        self.unattributed = []
        with ThreadPoolExecutor(min(self.nshards, NCPU)) as ex:
            for si, bad, out in ex.map(build_shard, list(enumerate(shards))):
                for cid in shards[si]:
                    self.shard_of[cid] = si
                    if cid in bad:
                        verdict[cid] = bad[cid]
                    elif isinstance(out, dict):
                        verdict[cid] = "inconclusive"
                    else:
                        verdict[cid] = "accepted"
                        self.shard_of[cid] = si
                if isinstance(out, dict):
                    self.unattributed.append(out)
                elif out:
                    self.bins[si] = out
        self.timing["compile_s"] = round(time.time() - t0, 2)
        return verdict

    # -- step 3: probe
    def probe(self, cases, verdict):
        """runs each accepted case's vectors in its own process; returns {case id: {"obs": {vid: obs}, "exit", "signal"}}"""
        t0 = time.time()

        def run_case(c):
            cid = c["id"]
            if verdict.get(cid) != "accepted" or not c.get("vectors"):
                return cid, None
            exe = self.bins[self.shard_of[cid]]
            lines = []
            for v in c["vectors"]:
                tgt = v["target"]
                if v["kind"] == "enum" and tgt.startswith("@enum") and not tgt.startswith("@enum-of:"):
                    # "@enum" / "@enum:<n>": the n-th GraphQL enum discovered in the emitted items (not predicted)
                    ens = self.disc.get(cid, {}).get("enums", [])
                    n = int(tgt.split(":")[1]) if ":" in tgt else 0
                    tgt = "%s/%s" % (ens[n]["module"], ens[n]["name"]) if n < len(ens) else "no-enum-discovered"
                elif v["kind"] == "enum" and tgt.startswith("@enum-of:"):
                    # the discovered enum whose name equals the GraphQL name up to case and underscores
                    # (only used to locate the probe; what the probe observes is judged independently)
                    want = tgt.split(":", 1)[1].replace("_", "").lower()
                    ens = [e for e in self.disc.get(cid, {}).get("enums", []) if e["name"].replace("_", "").lower() == want]
                    tgt = "%s/%s" % (ens[0]["module"], ens[0]["name"]) if ens else "no-enum-discovered"
                key = "%s:%s/%s" % (v["kind"].split("-")[0], cid, tgt)     # "vars-reach" uses the `vars` probe
                lines.append(json.dumps({"key": key, "vid": v["id"], "input": v["input"]}))
            try:
                p = subprocess.run([exe], input=("\n".join(lines) + "\n").encode(), capture_output=True, timeout=300)
            except subprocess.TimeoutExpired:
                return cid, {"obs": {}, "exit": None, "signal": None, "timed_out": True}
            obs = {}
            for line in p.stdout.decode("utf-8", "replace").splitlines():
                try:
                    d = json.loads(line)
                except ValueError:
                    continue
                obs[d["vid"]] = d["obs"]
            rc = p.returncode
            return cid, {"obs": obs, "exit": rc if rc >= 0 else None, "signal": -rc if rc < 0 else None,
                         "stderr": p.stderr.decode("utf-8", "replace")[-400:] if rc != 0 else ""}
        out = {}
        with ThreadPoolExecutor(NCPU) as ex:
            for cid, r in ex.map(run_case, cases):
                if r is not None:
                    out[cid] = r
        self.timing["probe_s"] = round(time.time() - t0, 2)
        return out

    def run(self, cases, check_only=False):
        gen = self.generate(cases)
        verdict = self.compile(cases, gen, check_only=check_only)
        obs = {} if check_only else self.probe(cases, verdict)
        return gen, verdict, obs
