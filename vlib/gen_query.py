"""Random document generator for the clean corpus (the "supported subset" of DESIGN.md section 4).

Constructive: response keys are never repeated within one JSON object scope, abstract selections
always carry `__typename`, type conditions are the parent type (spreads only) or - on an abstract
parent - a member object type. A safety net (shape.Hazards + the type-name mirror below) rejects
and regenerates the rare document that still contains a catalogued hazard."""
from .model import base, frag_map, root_type, render_type, has_list, is_nn
from .shape import Hazards
from . import names

RESERVED_TYPE_NAMES = {"ResponseData", "Variables", "Boolean", "Float", "Int", "ID", "String", "Result", "Serialize", "Deserialize", "Other", "Unknown", "Box", "Vec", "Option"}


class DocGen:
    def __init__(self, schema, rng, max_depth=3, p_alias=0.2, p_frag=0.3, p_variant=0.45, p_typename_obj=0.15,
                 typename_only=True, dup_inline=True, use_args=True, recursive=True, literal_args=0.0):
        self.literal_args = literal_args
        self.s = schema
        self.rng = rng
        self.max_depth = max_depth
        self.p_alias = p_alias
        self.p_frag = p_frag
        self.p_variant = p_variant
        self.p_typename_obj = p_typename_obj
        self.typename_only = typename_only
        self.dup_inline = dup_inline
        self.use_args = use_args
        self.recursive = recursive
        self.frags_by_role = {}
        self.frags = {}      # name -> {"name","on","sel"}
        self.frag_order = []
        self.fragn = 0
        self.aliasn = 0
        self.features = set()
        self.vars = []       # variables of the operation under construction
        self.varn = 0

    # ---- selections -------------------------------------------------------------------------
    def selection(self, tname, depth, used=None):
        s, rng = self.s, self.rng
        k = s.kind(tname)
        used = set() if used is None else used
        items = []
        if k in ("interface", "union"):
            if rng.random() < 0.18:
                # `__typename` reaches this selection only through a spread of a fragment on the same type (shared by every
                # such selection of the document, and itself possibly a chain of two fragments)
                items.append(["spread", self.typename_fragment(tname)])
                self.features.add("typename-via-same-type-spread")
            else:
                items.append(["typename"])
            used.add("__typename")
            if rng.random() < 0.1 and depth < self.max_depth and s.possible(tname):
                # exactly `{ __typename ...FragmentOnOneMember }`
                m = rng.choice(s.possible(tname))
                fn = self.fragment(m, depth + 1, forbid=set(used))
                if fn:
                    items.append(["spread", fn])
                    if rng.random() < 0.5:
                        items.reverse()
                    self.features.add("typename-plus-single-member-spread")
                    self.features.add(k)
                    return items
            if k == "interface":
                fs = s.fields(tname)
                for f in rng.sample(fs, rng.randint(0, len(fs))):
                    it = self.field(f, depth, used)
                    if it:
                        items.append(it)
                        self.features.add("interface-common-field")
            if rng.random() < 0.2 and depth < self.max_depth:
                fn = self.fragment(tname, depth + 1, forbid=set(used) - {"__typename"})
                if fn:
                    items.append(["spread", fn])
                    used |= self.frag_keys(fn)
                    self.features.add("spread-on-abstract-parent")
            for m in s.possible(tname):
                r = rng.random()
                if r < self.p_variant:
                    sub = self.selection(m, depth + 1, used=set(used))
                    if sub:
                        if self.dup_inline and len(sub) >= 2 and rng.random() < 0.15:
                            # two inline fragments on the same member, disjoint keys
                            cut = rng.randint(1, len(sub) - 1)
                            items.append(["inline", m, sub[:cut]])
                            items.append(["inline", m, sub[cut:]])
                            self.features.add("two-inline-same-member")
                        else:
                            items.append(["inline", m, sub])
                        self.features.add("inline-variant")
                elif r < self.p_variant + 0.15 and depth < self.max_depth:
                    fn = self.fragment(m, depth + 1, forbid=set(used))
                    if fn:
                        items.append(["spread", fn])
                        self.features.add("spread-variant")
                        r2 = rng.random()
                        if r2 > 0.75 and depth < self.max_depth:
                            # ... or an inline fragment on the same member whose body is nothing but ANOTHER spread (disjoint keys):
                            # `... on M { ...A } ...B` - two fragments reach the member, one of them wrapped
                            fn2 = self.fragment(m, depth + 1, forbid=set(used) | self.frag_keys(fn))
                            if fn2 and fn2 != fn and not (self.frag_keys(fn2) & self.frag_keys(fn)):
                                items.append(["inline", m, [["spread", fn2]]])
                                self.features.add("spread-and-inline-wrapping-a-spread")
                        if r2 < 0.35:
                            # the same member also gets an inline fragment (disjoint keys), before or after the spread
                            taken = set(used) | self.frag_keys(fn)
                            sub = self.selection(m, depth + 1, used=set(taken))
                            sub = [x for x in sub if x[0] != "spread"]
                            if [x for x in sub if x[0] == "field"]:
                                items.append(["inline", m, sub])
                                self.features.add("spread-and-inline-same-member")
                else:
                    self.features.add("unit-variant")
            rng.shuffle(items)
            self.features.add(k)
            return items
        # object
        fs = s.fields(tname)
        if self.typename_only and depth > 0 and rng.random() < 0.04:
            self.features.add("typename-only-object")
            return [["typename"]]
        nsel = rng.randint(1, min(4, len(fs)))
        for f in rng.sample(fs, nsel):
            it = self.field(f, depth, used)
            if it:
                items.append(it)
        # the same composite field once more under another alias: its nested types must be told apart by the alias
        comp = [it for it in items if it[0] == "field" and it[4] and not it[3]]
        if comp and rng.random() < 0.15:
            import copy as _copy
            src = rng.choice(comp)
            f = s.field(tname, src[2])
            self.aliasn += 1
            al = "twin%d" % self.aliasn
            sub2 = _copy.deepcopy(src[4]) if rng.random() < 0.5 else (self.selection(base(f["type"]), depth + 1) if depth < self.max_depth else None)
            if sub2 and al not in used:
                items.append(["field", al, src[2], None, sub2])
                used.add(al)
                self.features.add("same-field-under-two-aliases")
        if rng.random() < self.p_typename_obj:
            items.append(["typename"])
            self.features.add("typename-on-object")
        if rng.random() < self.p_frag and depth < self.max_depth:
            fn = self.fragment(tname, depth + 1, forbid=set(used))
            if fn:
                items.append(["spread", fn])
                used |= self.frag_keys(fn)
                self.features.add("spread-on-object-parent")
        if not [i for i in items if i[0] in ("field", "spread")]:
            for f in fs:
                if s.is_leaf(base(f["type"])) and f["name"] not in used and names.rust_field_ident(f["name"]) not in {names.rust_field_ident(u) for u in used}:
                    items.append(["field", None, f["name"], self.args_for(f), None])
                    used.add(f["name"])
                    break
            else:
                return []
        rng.shuffle(items)
        if len(items) == 1 and items[0][0] == "spread":
            self.features.add("spread-only-selection")
        return items

    def typename_fragment(self, tname):
        key = "__tn__" + tname
        if key in self.frags_by_role:
            return self.frags_by_role[key]
        self.fragn += 1
        outer = "TnOuter%d" % self.fragn
        if self.rng.random() < 0.5:
            inner = "TnInner%d" % self.fragn
            # definition order: the outer fragment comes first, the one that really selects __typename later
            self.frags[outer] = {"name": outer, "on": tname, "sel": [["spread", inner]]}
            self.frags[inner] = {"name": inner, "on": tname, "sel": [["typename"]]}
            self.frag_order += [outer, inner]
        else:
            self.frags[outer] = {"name": outer, "on": tname, "sel": [["typename"]]}
            self.frag_order.append(outer)
        self.frags_by_role[key] = outer
        return outer

    def args_for(self, f):
        if not self.use_args or not f.get("args"):
            return None
        parts = []
        for an, at in f["args"]:
            lit = self.literal_for(at) if self.rng.random() < self.literal_args else None
            if lit is not None:
                parts.append("%s: %s" % (an, lit))
                self.features.add("argument-literal")
                continue
            # bind to a fresh variable of exactly the argument's type
            self.varn += 1
            vn = self.rng.choice(["v%d", "varName%d", "snake_var%d"]) % self.varn
            self.vars.append({"name": vn, "type": at, "default": None})
            parts.append("%s: $%s" % (an, vn))
            self.features.add("argument-variable")
        return "(" + ", ".join(parts) + ")"

    STRING_LITERALS = ['"plain"', '"with \\"quotes\\" and \\\\ backslash"', '"unicode é ☃ \\u00e9"', '"tab\\tnewline\\n"', '""',
                       '"""block string\n  with "quotes", # not a comment, and é"""', '"# not a comment"', '"{ } ( ) ... $x"']

    def literal_for(self, t):
        nullable = t[0] != "nn"
        while t[0] == "nn":
            t = t[1]
        if t[0] == "list":
            return "[]" if self.rng.random() < 0.5 or True else None
        b = t[1]
        if nullable and self.rng.random() < 0.15:
            return "null"
        if b == "String":
            return self.rng.choice(self.STRING_LITERALS)
        if b == "Int":
            return self.rng.choice(["0", "-7", "42"])
        if b == "Float":
            return self.rng.choice(["1.5", "-0.25", "1e3"])
        if b == "Boolean":
            return self.rng.choice(["true", "false"])
        if b == "ID":
            return self.rng.choice(['"id-1"', "17"])
        if self.s.kind(b) == "enum":
            return self.rng.choice(self.s.types[b]["values"])
        return None

    def field(self, f, depth, used):
        s, rng = self.s, self.rng
        alias = None
        if rng.random() < self.p_alias:
            self.aliasn += 1
            alias = rng.choice(["al%d", "aliasName%d", "A%d", "snake_alias%d"]) % self.aliasn
            self.features.add("alias")
        key = alias or f["name"]
        ident = names.rust_field_ident(key)
        if key in used or ident in {names.rust_field_ident(u) for u in used}:
            return None
        b = base(f["type"])
        sub = None
        if s.is_composite(b):
            if depth >= self.max_depth:
                return None
            if s.kind(b) != "object" and not s.possible(b):
                return None
            sub = self.selection(b, depth + 1)
            if not sub:
                return None
            if depth + 1 >= 3:
                self.features.add("depth>=3")
        else:
            if s.kind(b) == "enum":
                self.features.add("enum-field")
            elif b == "ID":
                self.features.add("id-field")
            elif b not in ("Int", "Float", "String", "Boolean"):
                self.features.add("custom-scalar-field")
        ld = 0
        t = f["type"]
        while t[0] != "named":
            if t[0] == "list":
                ld += 1
            t = t[1]
        self.features.add("list-depth-%d" % min(ld, 2))
        used.add(key)
        return ["field", alias, f["name"], self.args_for(f), sub]

    def frag_keys(self, fn):
        fr = self.frags[fn]
        ks = set()
        for it in fr["sel"]:
            if it[0] == "field":
                ks.add(it[1] or it[2])
            elif it[0] == "typename":
                ks.add("__typename")
            elif it[0] == "spread" and it[1] in self.frags and self.frags[it[1]]["on"] == fr["on"] and it[1] != fn:
                ks |= self.frag_keys(it[1])
        return ks

    def fragment(self, tname, depth, forbid):
        self.fragn += 1
        fn = self.rng.choice(["Frag%d", "fragLower%d", "snake_frag%d"]) % self.fragn
        self.frags[fn] = {"name": fn, "on": tname, "sel": []}
        used = set(forbid)
        sub = self.selection(tname, depth, used=used)
        sub = [x for x in sub if not (x[0] == "field" and (x[1] or x[2]) in forbid)]
        if not [i for i in sub if i[0] in ("field", "spread", "inline")]:
            del self.frags[fn]
            return None
        s = self.s
        if self.recursive and s.kind(tname) == "object" and self.rng.random() < 0.3:
            for f in s.fields(tname):
                if base(f["type"]) == tname and f["name"] not in used and f["name"] not in forbid and not f.get("args"):
                    r3 = self.rng.random()
                    if r3 < 0.25:
                        # mutual recursion: fn -> partner -> fn through the self-typed field
                        self.fragn += 1
                        partner = "Mutual%d" % self.fragn
                        self.aliasn += 1
                        leaf = next((g for g in s.fields(tname) if s.is_leaf(base(g["type"])) and not g.get("args")), None)
                        psel = [["field", None, f["name"], None, [["spread", fn]]]]
                        if leaf is not None:
                            psel.insert(0, ["field", "mut%d" % self.aliasn, leaf["name"], None, None])
                        self.frags[partner] = {"name": partner, "on": tname, "sel": psel}
                        self.frag_order.append(partner)
                        sub.append(["field", None, f["name"], None, [["spread", partner]]])
                        self.features.add("mutually-recursive-fragments")
                    elif r3 < 0.6:
                        sub.append(["field", None, f["name"], None, [["spread", fn]]])
                        self.features.add("recursive-fragment-alias-form")
                    else:
                        # sibling leaf next to the recursive spread -> flatten form
                        leaf = next((g for g in s.fields(tname) if s.is_leaf(base(g["type"])) and not g.get("args") and g["name"] not in self.frag_keys_of(sub) and g["name"] not in forbid), None)
                        if leaf is None:
                            sub.append(["field", None, f["name"], None, [["spread", fn]]])
                            self.features.add("recursive-fragment-alias-form")
                        else:
                            self.aliasn += 1
                            al = "rec%d" % self.aliasn
                            sub.append(["field", None, f["name"], None, [["field", al, leaf["name"], None, None], ["spread", fn]]])
                            self.features.add("recursive-fragment-flatten-form")
                    break
        self.frags[fn]["sel"] = sub
        self.frag_order.append(fn)
        self.features.add("named-fragment")
        if depth >= 2:
            self.features.add("nested-fragment")
        return fn

    def frag_keys_of(self, sub):
        return {(it[1] or it[2]) for it in sub if it[0] == "field"}

    # ---- documents --------------------------------------------------------------------------
    def operation(self, kind, name):
        s = self.s
        rt = s.roots[kind]
        self.vars = []
        for _ in range(60):
            self.vars = []
            if kind == "subscription":
                fs = s.fields(rt)
                self.rng.shuffle(fs)
                sel = []
                for f in fs:
                    it = self.field(f, 0, set())
                    if it:
                        sel = [it]
                        break
            else:
                sel = self.selection(rt, 0)
            if sel and any(i[0] != "typename" for i in sel):
                break
        else:
            return None
        self.features.add(kind)
        return {"kind": kind, "name": name, "vars": list(self.vars), "sel": sel}

    def document(self, n_ops=None, kinds=None):
        s, rng = self.s, self.rng
        avail = [k for k in ("query", "mutation", "subscription") if s.roots.get(k)]
        for attempt in range(80):
            self.frags = {}
            self.frags_by_role = {}
            self.frag_order = []
            self.features = set()
            n = n_ops if n_ops is not None else rng.choice([1, 1, 1, 2, 3])
            ops = []
            for i in range(n):
                kind = (kinds[i] if kinds else rng.choice(avail if i else avail[:1] + avail))
                name = rng.choice(["Op%d", "GetThing%d", "Q%dx", "getThing%d", "My_Query%d", "HTTPQuery%d"]) % (i + 1)
                op = self.operation(kind, name)
                if op is None:
                    break
                ops.append(op)
            if len(ops) != n:
                continue
            used = reachable_fragments(ops, self.frags)
            doc = {"operations": ops, "fragments": [self.frags[f] for f in self.frag_order if f in used]}
            if Hazards(s, doc).first_hazard():
                continue
            if type_name_collision(s, doc):
                continue
            if n > 1:
                self.features.add("multi-operation")
            return doc
        raise RuntimeError("could not generate a clean document")


def reachable_fragments(ops, frags):
    acc = set()

    def rec(items):
        for it in items:
            if it[0] == "field" and it[4]:
                rec(it[4])
            elif it[0] == "inline":
                rec(it[2])
            elif it[0] == "spread" and it[1] not in acc:
                acc.add(it[1])
                rec(frags[it[1]]["sel"])
    for op in ops:
        rec(op["sel"])
    return acc


def emitted_type_names(schema, doc):
    """naming mirror: the type names the generator will emit for the response side (approximation,
    used only to reject colliding documents)"""
    out = []

    def scope(items, tname, prefix):
        k = schema.kind(tname)
        if k != "object":
            out.append(prefix + "On")
            for m in schema.possible(tname):
                out.append(prefix + "On" + m)
        walk(items, tname, prefix)

    def walk(items, tname, prefix):
        for it in items:
            if it[0] == "field" and it[4] is not None:
                f = schema.field(tname, it[2])
                if f is None:
                    continue
                p = prefix + names.camel(it[1] or it[2])
                out.append(p)
                scope(it[4], base(f["type"]), p)
            elif it[0] == "inline":
                walk(it[2], it[1], prefix + "On" + names.camel(it[1]))
    for op in doc["operations"]:
        scope(op["sel"], root_type(schema, op), names.camel(op["name"]))
    for fr in doc["fragments"]:
        out.append(fr["name"])
        scope(fr["sel"], fr["on"], names.camel(fr["name"]))
    return out


def type_name_collision(schema, doc):
    ns = emitted_type_names(schema, doc)
    seen = set(RESERVED_TYPE_NAMES)
    for n in schema.order:
        k = schema.kind(n)
        if k in ("enum", "input", "scalar"):
            seen.add(n)
            seen.add(names.camel(n))
    for n in ns:
        if n in seen:
            return n
        seen.add(n)
    # module / struct names per operation
    mods = set()
    for op in doc["operations"]:
        m = names.snake(op["name"])
        if m in mods or m == op["name"]:
            return op["name"]
        mods.add(m)
    return None


def gen_document(schema, rng, **kw):
    n_ops = kw.pop("n_ops", None)
    kinds = kw.pop("kinds", None)
    g = DocGen(schema, rng, **kw)
    doc = g.document(n_ops=n_ops, kinds=kinds)
    return doc, sorted(g.features)
