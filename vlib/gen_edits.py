"""Invalidating edits (C06): every applicable single edit of the rule catalogue at every position
of a clean document. Each edit is checked by the model to really make the document invalid."""
import copy

from .model import base, render_document, render_operation, render_fragment, root_type, frag_map, render_sel, render_vars


def positions(schema, doc):
    """yield (container, index, item, parent_type, where, depth) for every selection item.
    container is the list holding the item; where = "op:<name>" | "frag:<name>", plus inline marker"""
    def rec(items, ptype, where, depth, in_inline):
        for i, it in enumerate(items):
            yield items, i, it, ptype, where, depth, in_inline
            if it[0] == "field" and it[4] is not None:
                f = schema.field(ptype, it[2])
                if f is not None:
                    yield from rec(it[4], base(f["type"]), where, depth + 1, False)
            elif it[0] == "inline":
                yield from rec(it[2], it[1], where, depth + 1, True)
    for op in doc["operations"]:
        yield from rec(op["sel"], root_type(schema, op), "op:" + op["name"], 0, False)
    for fr in doc["fragments"]:
        yield from rec(fr["sel"], fr["on"], "frag:" + fr["name"], 0, False)


def has_typename(schema, doc, items, tname, guard=()):
    frags = frag_map(doc)
    for it in items:
        if it[0] == "typename":
            return True
        if it[0] == "spread" and it[1] in frags and it[1] not in guard:
            fr = frags[it[1]]
            if fr["on"] == tname and has_typename(schema, doc, fr["sel"], tname, guard + (it[1],)):
                return True
    return False


def _path_of(doc, target_container, target_index):
    """locate a container list inside doc by identity -> a path usable on a deep copy"""
    def rec(items, path):
        if items is target_container:
            return path
        for i, it in enumerate(items):
            if it[0] == "field" and it[4] is not None:
                r = rec(it[4], path + [i, 4])
                if r is not None:
                    return r
            elif it[0] == "inline":
                r = rec(it[2], path + [i, 2])
                if r is not None:
                    return r
        return None
    for oi, op in enumerate(doc["operations"]):
        r = rec(op["sel"], ["operations", oi, "sel"])
        if r is not None:
            return r
    for fi, fr in enumerate(doc["fragments"]):
        r = rec(fr["sel"], ["fragments", fi, "sel"])
        if r is not None:
            return r
    raise KeyError


def _split_words(name):
    import re
    return [w for w in re.findall(r"[A-Z]+(?![a-z])|[A-Z]?[a-z0-9]+|[A-Z]+", name) if w] or [name]


def _get(doc, path):
    x = doc
    for p in path:
        x = x[p]
    return x


def edits(schema, doc, rng=None, max_per_rule=None):
    """yield (rule, label, document text, meta)"""
    out = []
    pos = list(positions(schema, doc))

    def emit(rule, label, d2, meta=None, text=None):
        out.append((rule, label, text if text is not None else render_document(d2), dict(meta or {})))

    def edited(container, idx, fn):
        path = _path_of(doc, container, idx)
        d2 = copy.deepcopy(doc)
        c2 = _get(d2, path)
        fn(c2, idx)
        return d2

    scalars_etc = [n for n in schema.order if schema.kind(n) in ("scalar", "enum", "input")]
    for container, i, it, ptype, where, depth, in_inline in pos:
        meta = {"where": where, "depth": depth, "parent_kind": schema.kind(ptype), "in_inline": in_inline, "in_fragment": where.startswith("frag:")}
        if it[0] == "field":
            f = schema.field(ptype, it[2])
            # E1 unknown field
            emit("E1", "unknown-field@%s/%s" % (where, it[2]), edited(container, i, lambda c, k: c[k].__setitem__(2, "zz_no_such_field")), meta)
            # E1 unknown field whose response key repeats that of an earlier leaf of the same selection set (`id name id: nope`):
            # still a field the parent type does not have
            prev = [x for x in container[:i] if x[0] == "field" and x[4] is None]
            if prev and it[4] is None:
                key = prev[0][1] or prev[0][2]

                def rekey(c, k, key=key):
                    c[k][1] = key
                    c[k][2] = "zz_no_such_field"
                emit("E1", "unknown-field-under-repeated-key@%s/%s" % (where, it[2]), edited(container, i, rekey), dict(meta, form="repeated-key"))
            # E1 unknown field hiding behind the response key `__typename` (an alias is only a response key: `__typename: nope`
            # still selects `nope`)
            if it[4] is None:
                def as_typename(c, k):
                    c[k][1] = "__typename"
                    c[k][2] = "zz_no_such_field"
                emit("E1", "unknown-field-aliased-__typename@%s/%s" % (where, it[2]), edited(container, i, as_typename), dict(meta, form="typename-alias"))
            if f is None:
                continue
            b = base(f["type"])
            if schema.is_leaf(b):
                # E2 sub-selection on a scalar / enum field
                emit("E2", "subselection-on-leaf@%s/%s" % (where, it[2]), edited(container, i, lambda c, k: c[k].__setitem__(4, [["field", None, "zz", None, None]])), meta)
            else:
                # E3 no sub-selection on a composite field
                m3 = dict(meta, field_kind=schema.kind(b))
                emit("E3", "no-subselection@%s/%s" % (where, it[2]), edited(container, i, lambda c, k: c[k].__setitem__(4, None)), m3)
                # E7 drop __typename from an abstract selection
                if schema.kind(b) != "object" and it[4] and any(x[0] == "typename" for x in it[4]):
                    def drop(c, k):
                        c[k][4] = [x for x in c[k][4] if x[0] != "typename"]
                    d2 = edited(container, i, drop)
                    sub2 = _get(d2, _path_of(doc, container, i))[i][4]
                    if sub2 and not has_typename(schema, d2, sub2, b):
                        emit("E7", "drop-typename@%s/%s" % (where, it[2]), d2, dict(meta, under="field"))
                        # ... and the meta field replaced by an ordinary leaf that merely carries its name as an alias
                        leaf = next((g["name"] for g in (schema.types[b].get("fields") or []) if schema.is_leaf(base(g["type"]))), None) if schema.kind(b) == "interface" else None
                        if leaf:
                            d4 = copy.deepcopy(d2)
                            _get(d4, _path_of(doc, container, i))[i][4].insert(0, ["field", "__typename", leaf, None, None])
                            emit("E7", "typename-only-as-alias-of-%s@%s/%s" % (leaf, where, it[2]), d4, dict(meta, under="field", form="alias"))
                    # E7: `__typename` only for ONE member type - through a named fragment on that member, or an inline one
                    for member in sorted(schema.possible(b))[:1]:
                        for how in ("member-spread", "member-inline"):
                            def move(c, k, member=member, how=how):
                                c[k][4] = [x for x in c[k][4] if x[0] != "typename"]
                                if how == "member-spread":
                                    c[k][4].append(["spread", "ZzTypenameOfMember"])
                                else:
                                    c[k][4].insert(0, ["inline", member, [["typename"]]])
                            d3 = edited(container, i, move)
                            if how == "member-spread":
                                d3["fragments"].append({"name": "ZzTypenameOfMember", "on": member, "sel": [["typename"]]})
                            sub3 = _get(d3, _path_of(doc, container, i))[i][4]
                            if not has_typename(schema, d3, sub3, b):
                                emit("E7", "typename-only-via-%s %s@%s/%s" % (how, member, where, it[2]), d3, dict(meta, under="field", form=how))
        elif it[0] == "spread":
            # E4 undefined fragment
            emit("E4", "undefined-spread@%s" % where, edited(container, i, lambda c, k: c[k].__setitem__(1, "ZzNoSuchFragment")), meta)
            # ... under a name that differs from a defined fragment's in case / underscores only (names are case-sensitive)
            defined = {fr["name"] for fr in doc["fragments"]}
            for alt in (it[1].lower(), it[1].upper(), it[1][:1].lower() + it[1][1:], "_".join(_split_words(it[1])).lower()):
                if alt and alt not in defined and alt != it[1]:
                    emit("E4", "undefined-spread-lookalike %s@%s" % (alt, where), edited(container, i, lambda c, k, alt=alt: c[k].__setitem__(1, alt)), dict(meta, form="lookalike"))
                    break
        elif it[0] == "inline":
            # E5 type condition naming no schema type
            emit("E5", "unknown-condition@%s" % where, edited(container, i, lambda c, k: c[k].__setitem__(1, "ZzNoSuchType")), dict(meta, form="inline"))
            # ... and selecting only what every composite type offers, so that nothing but the condition itself is wrong

            def unknown_bare(c, k):
                c[k][1] = "ZzNoSuchType"
                c[k][2] = [["typename"]]
            emit("E5", "unknown-condition-typename-only@%s" % where, edited(container, i, unknown_bare), dict(meta, form="inline-bare"))
            # E6 impossible type conditions
            for cand in schema.order:
                if schema.is_composite(cand) and cand != it[1] and not schema.can_apply(cand, ptype):
                    # keep the sub-selection valid for the new condition: only __typename
                    def cond(c, k, cand=cand):
                        c[k][1] = cand
                        c[k][2] = [["typename"]]
                    emit("E6", "impossible-condition %s under %s@%s" % (cand, ptype, where), edited(container, i, cond),
                         dict(meta, form="inline", cond_kind=schema.kind(cand)))
            for cand in scalars_etc[:2]:
                def cond2(c, k, cand=cand):
                    c[k][1] = cand
                emit("E6", "non-composite-condition %s@%s" % (cand, where), edited(container, i, cond2), dict(meta, form="inline", cond_kind=schema.kind(cand)))
    # E6 via a new inline fragment with an impossible condition, in every composite scope (also object parents)
    seen_scopes = set()
    for container, i, it, ptype, where, depth, in_inline in pos:
        if id(container) in seen_scopes:
            continue
        seen_scopes.add(id(container))
        for cand in schema.order:
            if schema.is_composite(cand) and not schema.can_apply(cand, ptype):
                d2 = edited(container, 0, lambda c, k, cand=cand: c.append(["inline", cand, [["typename"]]]))
                emit("E6", "added-impossible-inline %s under %s@%s" % (cand, ptype, where), d2,
                     {"where": where, "depth": depth, "parent_kind": schema.kind(ptype), "in_inline": in_inline,
                      "in_fragment": where.startswith("frag:"), "form": "inline-added", "cond_kind": schema.kind(cand)})
    # named fragments: E4 (remove a used definition), E5 / E6 on the definition's condition, E7 on abstract fragments
    for fi, fr in enumerate(doc["fragments"]):
        d2 = copy.deepcopy(doc)
        del d2["fragments"][fi]
        emit("E4", "removed-definition %s" % fr["name"], d2, {"where": "frag:" + fr["name"], "depth": 0, "in_fragment": True})
        d2 = copy.deepcopy(doc)
        d2["fragments"][fi]["on"] = "ZzNoSuchType"
        emit("E5", "unknown-condition on fragment %s" % fr["name"], d2, {"where": "frag:" + fr["name"], "depth": 0, "form": "named", "in_fragment": True})
        if schema.kind(fr["on"]) != "object" and any(x[0] == "typename" for x in fr["sel"]):
            d2 = copy.deepcopy(doc)
            d2["fragments"][fi]["sel"] = [x for x in fr["sel"] if x[0] != "typename"]
            if d2["fragments"][fi]["sel"] and not has_typename(schema, d2, d2["fragments"][fi]["sel"], fr["on"]):
                emit("E7", "drop-typename on fragment %s" % fr["name"], d2, {"where": "frag:" + fr["name"], "depth": 0, "under": "named-fragment", "in_fragment": True})
    # E6 for spreads: a spread of a fragment whose condition can never apply to the parent
    for container, i, it, ptype, where, depth, in_inline in pos:
        if it[0] != "spread":
            continue
        for cand in schema.order:
            if schema.is_composite(cand) and not schema.can_apply(cand, ptype):
                d2 = edited(container, i, lambda c, k: c[k].__setitem__(1, "ZzImpossible"))
                d2["fragments"].append({"name": "ZzImpossible", "on": cand, "sel": [["typename"]]})
                emit("E6", "impossible-spread %s under %s@%s" % (cand, ptype, where), d2,
                     {"where": where, "depth": depth, "parent_kind": schema.kind(ptype), "in_inline": in_inline,
                      "in_fragment": where.startswith("frag:"), "form": "spread", "cond_kind": schema.kind(cand)})
                break
    # E6 with an EXISTING fragment: it stays validly spread where it was, and is spread once more in a scope it can never apply to
    used = {}
    for container, i, it, ptype, where, depth, in_inline in pos:
        if it[0] == "spread" and it[1] not in used:
            used[it[1]] = where
    fm = frag_map(doc)
    seen_scopes2 = set()
    for container, i, it, ptype, where, depth, in_inline in pos:
        if id(container) in seen_scopes2:
            continue
        seen_scopes2.add(id(container))
        for fn in sorted(used):
            if fn in fm and not schema.can_apply(fm[fn]["on"], ptype) and where != "frag:" + fn:
                for at_end in (True, False):
                    d2 = edited(container, 0, (lambda c, k, fn=fn: c.append(["spread", fn])) if at_end else (lambda c, k, fn=fn: c.insert(0, ["spread", fn])))
                    emit("E6", "second-spread of %s (on %s) under %s@%s" % (fn, fm[fn]["on"], ptype, where), d2,
                         {"where": where, "depth": depth, "parent_kind": schema.kind(ptype), "in_inline": in_inline, "in_fragment": where.startswith("frag:"),
                          "form": "respread", "cond_kind": schema.kind(fm[fn]["on"])})
                break
    # operation-level rules
    for oi, op in enumerate(doc["operations"]):
        if op["kind"] == "subscription":
            rt = root_type(schema, op)
            extra = next((f for f in schema.fields(rt) if schema.is_leaf(base(f["type"])) and not f.get("args")), None)
            d2 = copy.deepcopy(doc)
            if extra is not None:
                d2["operations"][oi]["sel"].append(["field", "zzSecond", extra["name"], None, None])
            else:
                d2["operations"][oi]["sel"].append(["typename"])
            emit("E8", "second-root-field in subscription %s" % op["name"], d2, {"where": "op:" + op["name"], "depth": 0})
        # E9 anonymous operations
        others = [render_operation(o) for j, o in enumerate(doc["operations"]) if j != oi]
        frs = [render_fragment(f) for f in doc["fragments"]]
        anon = "%s%s %s" % (op["kind"], render_vars(op.get("vars")), render_sel(op["sel"]))
        emit("E9", "anonymous %s" % op["kind"], None, {"where": "op:" + op["name"], "depth": 0}, text="\n".join([anon] + others + frs) + "\n")
        if op["kind"] == "query" and not op.get("vars"):
            emit("E9", "bare-selection-set", None, {"where": "op:" + op["name"], "depth": 0}, text="\n".join([render_sel(op["sel"])] + others + frs) + "\n")
    # E10 operation kind without a root type
    for kind in ("mutation", "subscription"):
        if not schema.roots.get(kind):
            d2 = copy.deepcopy(doc)
            d2["operations"].append({"kind": kind, "name": "ZzNoRoot", "vars": [], "sel": [["typename"]]})
            emit("E10", "%s without root type" % kind, d2, {"where": "op:ZzNoRoot", "depth": 0})
    if rng is not None and max_per_rule:
        by = {}
        for e in out:
            by.setdefault(e[0], []).append(e)
        out = []
        for r, es in sorted(by.items()):
            if len(es) > max_per_rule:
                es = rng.sample(es, max_per_rule)
            out += es
    return out
