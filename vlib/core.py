"""Run bookkeeping shared by all checks: seeds and tiers, three-valued verdicts, known-finding
matching, VIOLATION / KNOWN-FINDING lines, replay files and the evidence file."""
import hashlib
import json
import os
import random
import re
import sys
import time

VERIF = os.path.dirname(os.path.dirname(os.path.abspath(__file__)))
EVIDENCE = os.path.join(VERIF, "evidence")
REPLAYS = os.path.join(VERIF, "replays") if os.environ.get("VERIF_REPO", "/repo") == "/repo" else os.path.join(VERIF, ".build", "alt-replays")
KNOWN = os.path.join(VERIF, "known_findings.json")


def load_known():
    try:
        with open(KNOWN) as f:
            return json.load(f)["findings"]
    except FileNotFoundError:
        return []


class Run:
    def __init__(self, prop, tier, seed, level="exploration", replay=None):
        self.prop = prop
        self.tier = tier
        self.seed = seed
        self.level = level
        self.replay = replay
        self.rng = random.Random("%s/%s/%d" % (prop, tier, seed))
        self.t0 = time.time()
        self.evaluations = 0
        self.held_n = 0
        self.violations = []        # unlisted violations
        self.known_seen = {}        # finding id -> count
        self.inconclusive = []
        self.distinct = set()
        self.features = {}
        self.samples = []
        self.counters = {}
        self.assumptions = []
        if not replay:
            # replay files of an earlier run with the same seed would be misleading
            import glob
            for f in glob.glob(os.path.join(REPLAYS, "%s-s%d-*.json" % (prop, seed))):
                try:
                    os.remove(f)
                except OSError:
                    pass
        self.known = [k for k in load_known() if k["property"] == prop or prop in k.get("also", [])]
        self.witness_ran = {}       # finding id -> failed? (for "no longer reproduces" notes)
        self.rule = ""
        self.extra = {}
        self.exhaustive = None

    def sub_rng(self, label):
        return random.Random("%s/%s/%d/%s" % (self.prop, self.tier, self.seed, label))

    def quick(self):
        return self.tier == "quick"

    def size(self, quick, thorough):
        return quick if self.tier == "quick" else thorough

    # -- observations
    def count(self, key, n=1):
        self.counters[key] = self.counters.get(key, 0) + n

    def feature(self, labels):
        for l in labels:
            self.features[l] = self.features.get(l, 0) + 1

    def evaluated(self, n=1):
        self.evaluations += n

    def nontrivial(self, *key):
        """register one distinct non-trivial case by a structural key"""
        h = hashlib.sha1(json.dumps(key, sort_keys=True, default=str).encode()).hexdigest()[:16]
        self.distinct.add(h)

    def sample(self, obj, limit=4):
        if len(self.samples) < limit:
            self.samples.append(obj)

    def held(self, n=1):
        self.held_n += n

    def inconclusive_case(self, case_id, reason):
        self.inconclusive.append({"case": case_id, "reason": str(reason)[:300]})

    # -- violations
    def match_known(self, case, symptom):
        corpus = (case or {}).get("corpus", "clean")
        for k in self.known:
            if k.get("status") != "open":
                continue
            tag_ok = corpus in ("hazard:" + k.get("hazard", "\0"), "witness:" + k["id"], "hazard:" + k["id"])
            if not tag_ok:
                continue
            for pat in k.get("symptoms", []):
                if re.search(pat, symptom, re.S):
                    return k
        return None

    def violation(self, case, symptom, detail=None):
        """symptom: short machine-matchable string, e.g. 'deser-error: missing field `id`'"""
        k = self.match_known(case, symptom)
        if k is not None:
            self.known_seen[k["id"]] = self.known_seen.get(k["id"], 0) + 1
            return "known"
        rec = {"property": self.prop, "seed": self.seed, "tier": self.tier, "symptom": symptom, "detail": detail, "case": case}
        os.makedirs(REPLAYS, exist_ok=True)
        cid = (case or {}).get("id", "x")
        path = os.path.join(REPLAYS, "%s-s%d-%s-%d.json" % (self.prop, self.seed, re.sub(r"[^A-Za-z0-9_]", "_", str(cid)), len(self.violations)))
        if len(self.violations) < 25:
            with open(path, "w") as f:
                json.dump(rec, f, indent=1, default=str)
        else:
            path = "(not written: more than 25 violations)"
        self.violations.append({"symptom": symptom, "case": cid, "replay": path, "corpus": (case or {}).get("corpus", "clean")})
        if len(self.violations) <= 25:
            print("VIOLATION property=%s replay=%s" % (self.prop, path))
            print("  case=%s corpus=%s symptom=%s" % (cid, (case or {}).get("corpus", "clean"), symptom[:300]))
            sys.stdout.flush()
        return "violation"

    def witness_result(self, finding_id, failed):
        self.witness_ran[finding_id] = self.witness_ran.get(finding_id, False) or failed

    # -- finish
    def finish(self, floor=None):
        """floor: {counter or feature: minimum}: below it the run is inconclusive (exit 2), never green"""
        wall = time.time() - self.t0
        for k in self.known:
            if k.get("status") == "open":
                n = self.known_seen.get(k["id"], 0)
                if n:
                    print("KNOWN-FINDING: property=%s %s %s (%d occurrences this run)" % (self.prop, k["id"], k["what"], n))
                elif k["id"] in self.witness_ran and not self.witness_ran[k["id"]]:
                    print("note: finding %s no longer reproduces on this tree (%s)" % (k["id"], k["what"]))
        below = []
        for key, minimum in (floor or {}).items():
            have = self.counters.get(key, self.features.get(key, 0))
            if have < minimum:
                below.append("%s=%d<%d" % (key, have, minimum))
        cov = {
            "evaluations": int(self.evaluations),
            "distinct_nontrivial": len(self.distinct),
            "rule": self.rule,
            "samples": self.samples,
            "held": self.held_n,
            "inconclusive": len(self.inconclusive),
            "inconclusive_detail": self.inconclusive[:10],
            "features": dict(sorted(self.features.items())),
            "counters": dict(sorted(self.counters.items())),
            "known_findings_seen": dict(sorted(self.known_seen.items())),
            "violations_detail": self.violations[:25],
            "below_floor": below,
        }
        if self.exhaustive is not None:
            cov["exhaustive"] = bool(self.exhaustive)
        cov.update(self.extra)
        ev = {"property_id": self.prop, "tier": self.tier, "seed": self.seed, "level": self.level, "coverage": cov,
              "assumptions": self.assumptions, "wall_s": round(wall, 2), "violations": len(self.violations)}
        if not self.replay and not os.environ.get("VERIF_NO_EVIDENCE"):   # (set by tools/seeded.py when /repo carries a seeded change)
            os.makedirs(EVIDENCE, exist_ok=True)
            with open(os.path.join(EVIDENCE, "%s.json" % self.prop), "w") as f:
                json.dump(ev, f, indent=1, default=str)
        elif not self.replay:
            from . import build as _b
            os.makedirs(os.path.join(_b.BUILD, "scratch-evidence"), exist_ok=True)
            with open(os.path.join(_b.BUILD, "scratch-evidence", "%s.json" % self.prop), "w") as f:
                json.dump(ev, f, indent=1, default=str)
        status = "held"
        code = 0
        if self.violations:
            status, code = "VIOLATED", 1
        elif below or (self.evaluations == 0):
            status, code = "inconclusive (below floor: %s)" % ", ".join(below or ["no evaluations"]), 2
        print("%s %s seed=%d: %s - %d evaluations, %d distinct non-trivial, %d held, %d known-finding hits, %d inconclusive, %d violations, %.1fs"
              % (self.prop, self.tier, self.seed, status, self.evaluations, len(self.distinct), self.held_n,
                 sum(self.known_seen.values()), len(self.inconclusive), len(self.violations), wall))
        return code
