"""Case assembly: (schema model, document model, options) -> self-contained JSON case with
rendered texts, consumer support items and test vectors carrying their expected observations."""
import copy
import json

from .model import Schema, render_sdl, render_json, render_document, BUILTIN_SCALARS
from .shape import Ref, PayloadGen, corruptions, same, first_diff
from . import names

DEFAULT_OPTIONS = {"mode": "cli", "response_derives": "Serialize,Debug,PartialEq",
                   "variables_derives": "Deserialize,Debug,PartialEq", "visibility": "pub"}


def render_schema(schema, rng, fmt=None):
    fmt = fmt or rng.choice(["sdl", "sdl", "json", "json-data"])
    force_ext = fmt == "sdl-extended"       # every object split, interfaces arriving with the extension blocks
    if force_ext:
        fmt = "sdl"
    if fmt == "sdl":
        decl = False
        if rng.random() < 0.2:
            decl = rng.choice([True, ["ID"], ["ID", "String"], ["Int", "Float", "Boolean"]])
        ext_r = rng.random()
        text = render_sdl(schema, rng, extend=("all" if (ext_r < 0.25 or force_ext) else ext_r < 0.45), comments=rng.random() < 0.3, multiline=rng.random() < 0.7, declare_builtins=decl, tags=rng.random() < 0.5)
        ext = rng.choice(["graphql", "graphql", "graphqls", "gql"])
    else:
        text = render_json(schema, wrapped=(fmt == "json-data"), builtins=rng.choice(["none", "scalars", "all"]),
                           sparse=rng.random() < 0.3, indent=rng.choice([None, 1]), decoys=rng.random() < 0.3, rng=rng)
        ext = "json"
    return fmt, text, ext


def support_for(schema, options):
    sc = {}
    for n in schema.of_kind("scalar"):
        sc[n] = "String"
        if names.camel(n) != n:
            sc[names.camel(n)] = "String"
    sup = {"scalars": sc}
    m = options.get("custom_scalars_module")
    if m:
        sup["scalars_module"] = m.split("::")[-1]
    ee = {}
    for e in options.get("extern_enums") or []:
        if e in schema.types:
            # the consumer defines the enum under the name the generated code refers to
            rn = names.camel(e) if options.get("normalization") == "rust" else e
            ee[rn] = list(schema.types[e]["values"])
    if ee:
        sup["extern_enums"] = ee
    sp = options.get("serde_path") or ""
    if sp.startswith("crate::"):
        # a re-export of serde inside the consumer crate: crate::<case module>::<module>::<name>
        parts = sp.split("::")
        sup["serde_reexport"] = [parts[-2], parts[-1]]
    return sup


def make_case(cid, schema, doc, rng, options=None, fmt=None, corpus="clean", features=(), doc_text=None, indent=None):
    opts = dict(DEFAULT_OPTIONS)
    opts.update(options or {})
    fmt, text, ext = render_schema(schema, rng, fmt)
    if opts.get("custom_scalars_module") == "AUTO":
        opts["custom_scalars_module"] = "crate::%s::scalars" % cid
    case = {"id": cid, "corpus": corpus, "features": list(features),
            "schema_model": schema.d, "schema_format": fmt, "schema_text": text, "schema_ext": ext,
            "doc_model": doc, "doc_text": doc_text if doc_text is not None else render_document(doc, indent=indent),
            "options": opts, "support": support_for(schema, opts), "vectors": []}
    return case


def resp_vectors(case, rng, n_payloads=8, n_corrupt_bases=0, other_variant=False, drop_deprecated=False):
    """conforming payloads (+ expected re-serialisation) and, for the first bases, every
    single-point corruption"""
    schema = Schema(case["schema_model"])
    doc = case["doc_model"]
    ref = Ref(schema, doc)
    vecs = []
    stats = {}
    for op in doc["operations"]:
        pg = PayloadGen(ref, rng, drop_deprecated=drop_deprecated)
        plans = []
        for i in range(n_payloads):
            force = {}
            if i < 4:
                force["runtime_idx"] = i
            if i == 0:
                force["nullness"] = "none-null"
                force["list_len"] = 2
            elif i == 1:
                force["nullness"] = "all-null"
            elif i == 2:
                force["list_len"] = 0
            elif i == 3:
                force["list_len"] = 1
                force["nullness"] = "none-null"
            plans.append(force)
        bases = []
        for i, force in enumerate(plans):
            try:
                p, e = pg.gen_operation(op, force)
            except RecursionError:
                continue
            vid = "%s.p%d" % (op["name"], i)
            vecs.append({"id": vid, "kind": "resp", "target": op["name"], "input": p, "expect": {"ok": True, "reser": e}, "label": "conforming"})
            bases.append((vid, p, e))
        for vid, p, e in bases[:n_corrupt_bases]:
            for ci, (label, cp, exp) in enumerate(corruptions(ref, op, p, other_variant)):
                v = {"id": "%s.x%d" % (vid, ci), "kind": "resp", "target": op["name"], "input": cp, "label": label}
                if exp == "err":
                    v["expect"] = {"ok": False}
                elif exp[0] == "unknown-or-err":
                    v["expect"] = {"ok": True, "unknown_variant_keys": exp[1], "base_expected": e, "err_ok": True}
                else:
                    v["expect"] = {"ok": True, "unknown_variant_keys": exp[1], "base_expected": e}
                vecs.append(v)
        for k, n in pg.stats.items():
            stats[k] = stats.get(k, 0) + n
    return vecs, stats


def judge_resp(v, obs):
    """None when the observation matches the expectation, else a symptom string"""
    exp = v["expect"]
    if obs is None:
        return "no-observation"
    if "no_such_probe" in obs:
        return "no-such-probe: %s" % obs["no_such_probe"]
    routes = [("value", obs)]
    if isinstance(obs.get("str"), dict):
        routes.append(("str", obs["str"]))
    if isinstance(obs.get("rdr"), dict):
        routes.append(("reader", obs["rdr"]))
    for rname, o in routes:
        if exp["ok"]:
            if not o.get("ok"):
                if exp.get("err_ok"):
                    continue
                return "deser-error[%s]: %s" % (rname, o.get("err"))
            if "reser" in exp:
                if "reser" in o and not same(o["reser"], exp["reser"]):
                    return "lossy[%s] at %s" % (rname, first_diff(o["reser"], exp["reser"]))
            elif "unknown_variant_keys" in exp and "reser" in o:
                # unknown __typename with the other-variant option: must be the Unknown variant, and
                # the fields owned by the scope itself must survive
                r = json.dumps(o["reser"])
                if '"__typename": "Unknown"' not in r and '"__typename":"Unknown"' not in r:
                    return "unknown-typename-not-Unknown[%s]: %s" % (rname, r[:200])
        else:
            if o.get("ok"):
                return "accepted-corruption[%s]: %s" % (rname, v.get("label"))
    return None
