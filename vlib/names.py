"""Naming mirror: an approximation of heck's word segmentation, used ONLY to keep generated
corpora free of accidental Rust-identifier collisions and to label hazards. No oracle depends on
it: probes reach generated types through the GraphQLQuery trait and through names discovered in
the emitted items."""

# Rust reference, keywords chapter: strict (2015 + 2018), reserved (2015 + 2018+), and the weak
# keyword `union`. Taken from the reference, not from graphql-client's table.
STRICT = ["as", "break", "const", "continue", "crate", "else", "enum", "extern", "false", "fn", "for", "if", "impl",
          "in", "let", "loop", "match", "mod", "move", "mut", "pub", "ref", "return", "self", "Self", "static",
          "struct", "super", "trait", "true", "type", "unsafe", "use", "where", "while", "async", "await", "dyn"]
RESERVED = ["abstract", "become", "box", "do", "final", "macro", "override", "priv", "typeof", "unsized", "virtual",
            "yield", "try", "gen"]
WEAK = ["union"]
KEYWORDS = STRICT + RESERVED + WEAK
NON_RAW = ["self", "Self", "super", "crate"]


def words(name):
    """heck-style segmentation: split at non-alphanumerics, lower->Upper, and UPPER->Upper+lower."""
    out = []
    for chunk in _split_non_alnum(name):
        cur = ""
        chars = list(chunk)
        for i, c in enumerate(chars):
            if cur:
                prev = chars[i - 1]
                nxt = chars[i + 1] if i + 1 < len(chars) else ""
                if prev.islower() and c.isupper():
                    out.append(cur)
                    cur = ""
                elif prev.isupper() and c.isupper() and nxt.islower():
                    out.append(cur)
                    cur = ""
            cur += c
        if cur:
            out.append(cur)
    return out


def _split_non_alnum(name):
    cur = ""
    for c in name:
        if c.isalnum():
            cur += c
        else:
            if cur:
                yield cur
            cur = ""
    if cur:
        yield cur


def snake(name):
    return "_".join(w.lower() for w in words(name))


def camel(name):
    return "".join(w[:1].upper() + w[1:].lower() for w in words(name))


def rust_field_ident(name):
    s = snake(name)
    return s + "_" if s in KEYWORDS else s
