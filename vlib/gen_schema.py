"""Random schema generator (clean corpus): every kind of type, every list/non-null nesting,
field names in every case style. Knobs let individual checks bias it (inputs for C04, deprecations
for C14, ...)."""
from .model import Schema, T, L, NN, BUILTIN_SCALARS
from . import names

ENUM_VALUE_POOL = ["RED", "GREEN", "blue", "darkGray", "light_pink", "V1", "Mixed_Case", "NOT_FOUND", "a", "Http2", "in_progress", "type", "match", "in", "async"]
CUSTOM_SCALARS = ["Date", "DateTime", "URL", "json_blob"]
FIELD_STYLES = ["f%d", "fieldName%d", "snake_name%d", "F%d", "_u%d", "SCREAM_%d", "PascalName%d", "x%dY"]
DEPRECATION_REASONS = [None, "use other", "with \"quotes\" and \\ backslash", "line one\nline two", "unicode é ☃", "", "trailing space ", "  leading"]


def wrap(rng, t, allow_list=True, weights=None):
    r = rng.random()
    if not allow_list:
        return NN(t) if r < 0.5 else t
    if r < 0.25:
        return t
    if r < 0.45:
        return NN(t)
    if r < 0.55:
        return L(t)
    if r < 0.70:
        return NN(L(NN(t)))
    if r < 0.80:
        return L(NN(t))
    if r < 0.87:
        return NN(L(t))
    if r < 0.93:
        return L(L(NN(t)))
    if r < 0.97:
        return NN(L(NN(L(t))))
    return L(NN(L(NN(t))))


def input_defaults(s, fields, r):
    """default values for some input fields (schema-level only: the generator ignores them in both front-ends)"""
    out = {}
    for fname, t in fields:
        t0 = t[1] if t[0] == "nn" else t
        if t0[0] != "named" or r.random() > 0.3:
            continue
        b = t0[1]
        lit = {"Int": "5", "Float": "1.5", "String": '"dflt"', "Boolean": "true", "ID": '"id0"'}.get(b)
        if lit is None and b in s.types and s.types[b]["kind"] == "enum" and s.types[b]["values"]:
            lit = s.types[b]["values"][0]
        if lit is not None:
            out[fname] = lit
    return out


class SchemaGen:
    def __init__(self, rng, n_obj=None, n_iface=None, n_union=None, n_enum=None, n_input=None, deprecations=0.0,
                 id_lists=True, custom_roots=None, odd_type_names=False, args=True, own_deprecation=0.0, decoy_roots=None, narrowing=0.0,
                 unknown_member=False, underscore_types=False):
        self.rng = rng
        self.s = Schema()
        self.fcount = 0
        self.deprecations = deprecations
        self.narrowing = narrowing   # P(an object's copy of an interface field narrows the type: T -> T!, [T] -> [T!], [T] -> [T]!)
        self.own_deprecation = own_deprecation   # P(an object's copy of an interface field differs from the interface's in deprecation)
        self.id_lists = id_lists
        self.args = args
        r = rng
        s = self.s
        n_obj = n_obj if n_obj is not None else r.randint(2, 5)
        n_iface = n_iface if n_iface is not None else r.randint(1, 2)
        n_union = n_union if n_union is not None else r.randint(1, 2)
        n_enum = n_enum if n_enum is not None else r.randint(1, 3)
        n_input = n_input if n_input is not None else r.randint(0, 3)
        objs = ["Ob%s" % chr(65 + i) for i in range(n_obj)]
        if odd_type_names and n_obj >= 3:
            objs[-1] = "snake_obj"
        if odd_type_names and n_obj >= 2:
            # (`Video`, `Workspace`, `user`: names on either side of `Unknown` in every sort order)
            objs[0] = r.choice(["HTTPThing", "SMSMessage", "ObA", "dnsFailure", "Video", "Workspace", "user"])
        if unknown_member and n_obj >= 2:
            # an object type that is literally called `Unknown` (legal; only meaningful to test with the other-variant option OFF,
            # where the generator adds no variant of that name itself); made a member of every union and interface below
            objs[1] = "Unknown"
        if underscore_types and n_obj >= 2:
            objs[-1] = "_Service"          # federation-style names: one leading underscore is an ordinary name
        ifaces = ["If%s" % chr(65 + i) for i in range(n_iface)]
        unions = ["Un%s" % chr(65 + i) for i in range(n_union)]
        if underscore_types and n_union >= 1:
            unions[-1] = "_Entity"
        enums = ["En%s" % chr(65 + i) for i in range(n_enum)]
        if odd_type_names and n_enum >= 2:
            enums[-1] = "color_kind"
        inputs = ["In%s" % chr(65 + i) for i in range(n_input)]
        if odd_type_names and n_input >= 2:
            inputs[-1] = "filter_input"
        scalars = r.sample(CUSTOM_SCALARS if odd_type_names else CUSTOM_SCALARS[:3], r.randint(1, 2))
        if underscore_types:
            scalars.append("_Any")
        for sc in scalars:
            s.add(sc, {"kind": "scalar"})
        for e in enums:
            vals = []
            seen = set()
            for v in r.sample(ENUM_VALUE_POOL, r.randint(1, 5)):
                c = names.camel(v)
                if c in seen or c == "Other":
                    continue
                seen.add(c)
                vals.append(v)
            ed = {"kind": "enum", "values": vals}
            if deprecations:
                # deprecated enum values stay values: the server still sends and accepts them
                dv = {v: {"reason": r.choice(DEPRECATION_REASONS), "block": False} for v in vals if r.random() < deprecations / 2}
                if dv:
                    ed["deprecated_values"] = dv
            s.add(e, ed)
        self.outs = objs + ifaces + unions
        self.leaves = BUILTIN_SCALARS + scalars + enums
        self.in_leaves = BUILTIN_SCALARS + scalars + enums
        self.inputs = inputs
        # inputs first (fields may take them as arguments)
        for i, n in enumerate(inputs):
            s.add(n, {"kind": "input", "fields": [], "one_of": False})
        for i, n in enumerate(inputs):
            one_of = r.random() < 0.25
            nf = r.randint(1, 4)
            fields = []
            for _ in range(nf):
                self.fcount += 1
                fname = r.choice(FIELD_STYLES) % self.fcount
                if r.random() < 0.3 and inputs:
                    b = r.choice(inputs)
                    t = T(b)
                    # by-value non-null cycles are uninhabited; only nullable or list edges between inputs
                    t = r.choice([t, L(t), L(NN(t)), NN(L(NN(t)))])
                else:
                    b = r.choice(self.in_leaves)
                    t = wrap(r, T(b))
                if one_of:
                    t = t[1] if t[0] == "nn" else t
                fields.append([fname, t])
            s.types[n]["fields"] = fields
            s.types[n]["one_of"] = one_of
            if not one_of:
                s.types[n]["defaults"] = input_defaults(s, fields, r)
        for i in ifaces:
            s.add(i, {"kind": "interface", "fields": self.rand_fields(r.randint(1, 3))})
        for o in objs:
            impl = [i for i in ifaces if r.random() < 0.6]
            if unknown_member and o == "Unknown":
                impl = list(ifaces)
            fields = []
            for i in impl:
                fields += [self.own_copy(f) for f in s.types[i]["fields"]]
            fields += self.rand_fields(r.randint(1, 5), self_type=o)
            if len(impl) > 1 and r.random() < 0.5:
                impl = impl[::-1]          # `implements B & A` although A is declared first: the order of the clause is free
            s.add(o, {"kind": "object", "fields": fields, "implements": impl})
        for i in ifaces:
            if not s.possible(i):
                o = r.choice(objs)
                s.types[o]["implements"].append(i)
                s.types[o]["fields"] = [self.own_copy(f) for f in s.types[i]["fields"]] + s.types[o]["fields"]
        for u in unions:
            members = r.sample(objs, r.randint(1, min(3, len(objs))))
            if unknown_member and "Unknown" in objs and "Unknown" not in members:
                members.append("Unknown")
            s.add(u, {"kind": "union", "members": members})
        custom = custom_roots if custom_roots is not None else (r.random() < 0.2)
        qn, mn, sn = ("RootQ", "RootM", "RootS") if custom else ("Query", "Mutation", "Subscription")
        s.add(qn, {"kind": "object", "fields": self.rand_fields(r.randint(3, 6), root=True), "implements": []})
        s.roots["query"] = qn
        if r.random() < 0.5:
            s.add(mn, {"kind": "object", "fields": self.rand_fields(r.randint(1, 3), root=True), "implements": []})
            s.roots["mutation"] = mn
        if r.random() < 0.4:
            s.add(sn, {"kind": "object", "fields": self.rand_fields(r.randint(1, 3), root=True), "implements": []})
            s.roots["subscription"] = sn
        s.d["schema_block"] = custom or r.random() < 0.2
        # decoy: an ordinary object type that carries a default root name without being that root
        # (only expressible in SDL with an explicit schema block; JSON names the roots anyway)
        if (r.random() < 0.12) if decoy_roots is None else decoy_roots:
            for kind, dn in (("mutation", "Mutation"), ("subscription", "Subscription")):
                if not s.roots.get(kind) and dn not in s.types and (decoy_roots or r.random() < 0.7):
                    s.add(dn, {"kind": "object", "fields": self.rand_fields(r.randint(1, 2), root=False), "implements": []})
                    self.outs.append(dn)

    def own_copy(self, f):
        """an implementing object redeclares the interface's field; deprecation is per declaration (legal GraphQL: an
        object may deprecate a field its interface does not, and the other way round, or give another reason)"""
        g = dict(f)
        if self.narrowing and self.rng.random() < self.narrowing:
            t = g["type"]
            if t[0] != "nn":
                g["type"] = NN(t)
            elif t[1][0] == "list" and t[1][1][0] != "nn":
                g["type"] = NN(L(NN(t[1][1])))
        elif self.narrowing and g["type"][0] == "list" and g["type"][1][0] != "nn" and self.rng.random() < self.narrowing:
            g["type"] = L(NN(g["type"][1]))
        if self.own_deprecation and self.rng.random() < self.own_deprecation:
            if g.get("deprecated") is None:
                g["deprecated"] = {"reason": self.rng.choice(DEPRECATION_REASONS), "block": False}
            elif self.rng.random() < 0.5:
                g["deprecated"] = None
            else:
                g["deprecated"] = {"reason": "object-level: use something else", "block": False}
        return g

    def rand_fields(self, n, root=False, self_type=None):
        r = self.rng
        out = []
        for _ in range(n):
            self.fcount += 1
            name = r.choice(FIELD_STYLES) % self.fcount
            if self_type and r.random() < 0.2:
                b = self_type
            elif r.random() < (0.75 if root else 0.4):
                b = r.choice(self.outs)
            else:
                b = r.choice(self.leaves)
            t = T(b)
            if b == "ID" and not self.id_lists:
                t = wrap(r, t, allow_list=False)
            elif self_type and b == self_type:
                t = r.choice([t, L(t), L(NN(t)), NN(L(NN(t)))])  # an object cannot contain itself non-null
            else:
                t = wrap(r, t)
            f = {"name": name, "type": t, "args": [], "deprecated": None}
            if self.args and r.random() < 0.25:
                for ai in range(r.randint(1, 2)):
                    ab = r.choice(self.in_leaves + self.inputs)
                    f["args"].append(["arg%d" % ai, wrap(r, T(ab), allow_list=r.random() < 0.3)])
            if r.random() < self.deprecations:
                reason = r.choice(DEPRECATION_REASONS)
                f["deprecated"] = {"reason": reason, "block": r.random() < 0.3}
            out.append(f)
        return out


def gen_schema(rng, **kw):
    return SchemaGen(rng, **kw).s
